"""C02 - no duplicated or dropped solutions in conjunctive / else-if queries.

EP-BOUND  every node kind that writes its own id into the bindings yields a bound value once
          instead of enumerating again (bound check dominates every child evaluation / domain
          iteration; its true branch only passes through)
EP-GATE   AND evaluates its right operand exactly under "left is true", once per left result, with
          the left result's bindings, and emits a false left once; the else-if form evaluates its
          right operand exactly under "left is false"; only the union form has a second pass
EP-ONCE   each operand role is evaluated at one site per guard (no re-evaluation)
Counting itself is shared with C09 (QC-PATH).  Actual multiplicities on data are not decided.
"""
from __future__ import annotations

import ast
from typing import Dict, List, Optional, Set

from ..model import Program, AnalysisError, ClassInfo, walk_local
from ..report import RuleResult, guard
from ..astutil import src, calls_in
from ..callgraph import self_closure
from ..evalproto import Summary, Site, Emission
from .c01 import concrete_classes, summary_of, _cache

EXPLANATION = (
    "Multiplicity is decided structurally on the same provenance summaries as C01. EP-BOUND: the classes that store a value "
    "under their own id are found from the source (a dict display or subscript store keyed by self._id_ in the evaluation "
    "closure); for each, every child evaluation and every emission that adds bindings must be control-dependent on the "
    "false branch of `self._id_ in <incoming bindings>`, and the true branch must emit the incoming bindings unchanged - "
    "otherwise an already bound variable is enumerated again and solutions are duplicated. EP-GATE: in AND the right "
    "operand's only evaluation site is guarded by 'left result is not false', receives the left result's bindings and the "
    "false-left emission happens once per left result; in the else-if form the right operand's only site is guarded by "
    "'left result is false'; a second, unconditional pass over the right operand is allowed for the union form only."
)
ASSUMPTIONS = [
    "each child result is one solution of the child (induction over the expression tree)",
    "the fragment of the property (and_, else-if or_, comparisons, predicates, negated atoms); union/quantifiers are outside it",
]


def _binds_own_id(prog: Program, c: ClassInfo) -> bool:
    f = prog.lookup(c.qual, "_evaluate__")
    seen, _ = self_closure(prog, c.qual, f, property_reads=False)
    for g in seen:
        for n in walk_local(g.node):
            if isinstance(n, ast.Dict):
                for k in n.keys:
                    if k is not None and src(k) == "self._id_":
                        return True
            if isinstance(n, ast.Assign):
                for t in n.targets:
                    if isinstance(t, ast.Subscript) and src(t.slice) == "self._id_":
                        return True
    return False


def _bound_guard(g) -> Optional[bool]:
    """polarity of a guard of the form `self._id_ in <bindings>`; None if it is another guard"""
    fl, pol, text = g
    if fl and fl[0] == "cmp" and text.replace(" ", "").startswith("self._id_in"):
        return pol
    return None


def ep_bound(prog: Program) -> RuleResult:
    r = RuleResult("EP-BOUND", "a node that binds its own id passes an existing binding through instead of enumerating again", floor=8)
    n = 0
    for c in concrete_classes(prog):
        if not _binds_own_id(prog, c):
            continue
        n += 1
        s = summary_of(prog, c)
        definer = prog.lookup(c.qual, "_evaluate__")
        key = f"{definer.cls.name}._evaluate__:{c.name}"
        unguarded = [st for st in s.sites if not any(_bound_guard(g) is False for g in st.guards)]
        r.check(
            not unguarded, key + "#children-only-when-unbound", f"{definer.module.relpath}:{definer.node.lineno}", src(unguarded[0].node) if unguarded else "",
            "every child evaluation is control-dependent on 'own id not yet bound'",
            f"{unguarded[0].recv if unguarded else ''} is evaluated even when this node's id is already in the bindings: a bound variable is enumerated again and "
            f"every solution that reaches it is multiplied",
        )
        adding = [e for e in s.emissions if (e.bindings.may - {"P"}) or not any(_bound_guard(g) is True for g in e.guards)]
        bad = [e for e in adding if not any(_bound_guard(g) is False for g in e.guards)]
        r.check(
            not bad, key + "#enumeration-only-when-unbound", f"{definer.module.relpath}:{bad[0].lineno if bad else definer.node.lineno}", "",
            "results that add bindings are produced only when the id is unbound",
            "a result that adds bindings (domain / child enumeration) is produced although the id may already be bound",
        )
        passthrough = [e for e in s.emissions if any(_bound_guard(g) is True for g in e.guards)]
        ok = len(passthrough) == 1 and passthrough[0].bindings.may <= {"P"} and "P" in passthrough[0].bindings.must and not passthrough[0].loops
        r.check(
            ok, key + "#bound-passes-through-once", f"{definer.module.relpath}:{passthrough[0].lineno if passthrough else definer.node.lineno}", "",
            "a bound id yields the incoming bindings exactly once",
            "when the id is bound the node does not yield the incoming bindings exactly once (solutions are dropped or duplicated)",
        )
    if n < 4:
        raise AnalysisError(f"EP-BOUND: only {n} id-binding node kinds found (Variable, DomainMapping, Comparator, ResultQuantifier are the confirmed ones)")
    return r


def _left_flag_guard(g, left_ids: Set[str]) -> Optional[bool]:
    """polarity of 'left result is false' in a guard; None for unrelated guards"""
    fl, pol, text = g
    if not fl:
        return None
    neg = False
    while fl and fl[0] == "not":
        neg = not neg
        fl = fl[1]
    if fl and fl[0] == "elem" and set(fl[1]) <= left_ids and fl[1]:
        is_false = fl[2] == "is_false"
        val = pol if is_false else not pol
        return (not val) if neg else val
    return None


def ep_gate(prog: Program) -> RuleResult:
    r = RuleResult("EP-GATE", "right operands are evaluated exactly under the stated truth of the left result", floor=8)
    andq = prog.cls("symbolic.AND").qual
    orq = prog.cls("symbolic.OR").qual
    unionq = prog.cls("symbolic.Union").qual
    for c in concrete_classes(prog):
        is_and = prog.is_subclass(c.qual, andq)
        is_or = prog.is_subclass(c.qual, orq)
        if not (is_and or is_or):
            continue
        is_union = prog.is_subclass(c.qual, unionq)
        s = summary_of(prog, c)
        left = [st for st in s.sites if "self.left" in st.recv_roles]
        right = [st for st in s.sites if "self.right" in st.recv_roles]
        left_ids = {st.id for st in left}
        key = c.name
        loc = f"{left[0].module}:{left[0].lineno}" if left else c.loc
        r.check(len(left) == 1 and left[0].arg0.may == {"P"} and not left[0].loops, key + "#left-once", loc, src(left[0].node) if left else "",
                "the left operand is evaluated once, from the incoming bindings", f"the left operand is evaluated {len(left)} time(s) / not from the incoming bindings")
        want = False if is_and else True  # AND: right when left is NOT false; OR: right when left IS false
        gated = [st for st in right if any(_left_flag_guard(g, left_ids) is want for g in st.guards)]
        ungated = [st for st in right if st not in gated]
        wrong = [st for st in right if any(_left_flag_guard(g, left_ids) is (not want) for g in st.guards)]
        r.check(
            len(gated) == 1 and not wrong, key + "#right-gated", f"{right[0].module}:{right[0].lineno}" if right else loc, src(gated[0].node) if gated else "",
            f"the right operand is evaluated under 'left result is {'true' if is_and else 'false'}'",
            f"the right operand has {len(gated)} evaluation site(s) under 'left is {'true' if is_and else 'false'}' and {len(wrong)} under the opposite: "
            f"solutions are {'dropped' if not gated else 'duplicated'}",
        )
        if gated:
            g = gated[0]
            ok = left_ids <= g.arg0.must and set(g.loops) == left_ids and len(g.loops) == len(left_ids)
            r.check(ok, key + "#right-under-left-binding-once", f"{g.module}:{g.lineno}", src(g.node),
                    "once per left result, with that result's bindings",
                    f"the gated right evaluation does not run exactly once per left result with its bindings (bindings from {sorted(g.arg0.must)}, enclosing iterations {g.loops})")
        if is_union:
            ok = len(ungated) == 1 and ungated[0].arg0.may == {"P"} and not ungated[0].loops
            r.check(ok, key + "#second-pass", loc, src(ungated[0].node) if ungated else "", "the union form evaluates its right operand once more from the incoming bindings",
                    "the union form does not have exactly one unconditional second pass over its right operand")
        else:
            r.check(not ungated, key + "#no-other-right-evaluation", f"{ungated[0].module}:{ungated[0].lineno}" if ungated else loc, src(ungated[0].node) if ungated else "",
                    "no other path evaluates the right operand", "the right operand is also evaluated outside the gate: every solution of it is produced again")
        # the result for a decided left: emitted once per left result
        decided = [e for e in s.emissions if any(_left_flag_guard(g, left_ids) is (not want) for g in e.guards) and not (set(e.bindings.may) - {"P"} - left_ids - {f"v:{x}" for x in left_ids})]
        ok = len(decided) == 1 and set(decided[0].loops) == left_ids and len(decided[0].loops) == len(left_ids) and left_ids <= decided[0].bindings.must
        # ... and under no further condition: whether someone upstream "wants" the result is not this node's call (and must not be memoised on it)
        extra = [g for e in decided for g in e.guards if _left_flag_guard(g, left_ids) is None]
        if ok and extra:
            ok = False
        own = c.methods.get("_evaluate__")
        if not decided and own is not None and any(isinstance(x, ast.Call) and isinstance(x.func, ast.Attribute) and x.func.attr == "_evaluate__" and src(x.func.value) == "super()" for x in ast.walk(own.node)):
            # a selector that re-emits the results of its (checked) base evaluation one for one
            one = len(s.emissions) == 1 and len(set(s.emissions[0].loops)) == len(s.emissions[0].loops)
            r.check(one, key + "#re-emits-base-results-once", f"{s.emissions[0].module}:{s.emissions[0].lineno}" if s.emissions else loc, "",
                    "each result of the base evaluation is re-emitted exactly once", "results of the base evaluation are not re-emitted one for one")
            continue
        r.check(
            ok, key + "#decided-left-emitted-once", f"{decided[0].module}:{decided[0].lineno}" if decided else loc, "",
            f"a {'false' if is_and else 'true'} left result is emitted exactly once with its bindings",
            f"a {'false' if is_and else 'true'} left result is emitted {len(decided)} time(s) (needed: once, with the left result's bindings)"
            + (f", and only under the further condition(s) {[str(g)[:80] for g in extra]}: an enclosing else-if never learns that the operand failed for that binding" if extra else ""),
        )
    return r


def or_form(prog: Program) -> RuleResult:
    """or_ picks the else-if form exactly when both sides range over the same *set* of variables."""
    from ..dtable import explore, Sym, App

    r = RuleResult("OR-FORM", "or_ builds the else-if form iff both sides range over the same set of variables, the union form otherwise", floor=3)
    f = prog.func("symbolic.optimize_or")
    paths = explore(prog, f, [Sym("left"), Sym("right")], inline=lambda q: False)
    atoms = {a for val, _, _ in paths for a in val}
    order_free = ("set(", "frozenset(", ".keys()")
    cmp_atoms = [a for a in atoms if a[0] == "ord"]
    local_defs = {n.name: n for n in ast.walk(f.node) if isinstance(n, ast.FunctionDef) and n is not f.node}

    def is_set_expr(e: ast.expr) -> bool:
        if isinstance(e, (ast.Set, ast.SetComp)):
            return True
        if isinstance(e, ast.Call) and isinstance(e.func, ast.Name) and e.func.id in ("set", "frozenset"):
            return True
        if isinstance(e, ast.BinOp) and isinstance(e.op, (ast.Sub, ast.BitAnd, ast.BitOr)):
            return is_set_expr(e.left)
        return False

    def order_free_term(t: str) -> bool:
        if any(t.startswith(k) or t.endswith(".keys()") for k in order_free):
            return True
        # g(left) / g(right) for a local helper whose every return value is a set
        for name, g in local_defs.items():
            if t.startswith(name + "("):
                rets = [x for x in ast.walk(g) if isinstance(x, ast.Return) and x.value is not None]
                return bool(rets) and all(is_set_expr(x.value) for x in rets)
        return False

    ok_atoms = len(atoms) == 1 and len(cmp_atoms) == 1 and all(order_free_term(t) for t in cmp_atoms[0][1:])
    both_sides = ok_atoms and "left" in cmp_atoms[0][1] + cmp_atoms[0][2] and "right" in cmp_atoms[0][1] + cmp_atoms[0][2]
    helper = None
    if ok_atoms:
        for name, g in local_defs.items():
            if all(t.startswith(name + "(") for t in cmp_atoms[0][1:]):
                helper = g
    r.check(ok_atoms and both_sides, "optimize_or#set-comparison", f"{f.module.relpath}:{f.node.lineno}", str(sorted(map(str, atoms))),
            "the decision compares the two variable *sets* (order and multiplicity of mention do not matter)",
            f"the form of or_ is decided by {sorted(map(str, atoms))}, not by an order-insensitive comparison of the two sides' variable sets: conditions over the same variables "
            f"mentioned in a different order are built as the union form, whose second pass yields every solution of the right side twice")
    eq = [(val, out) for val, out, _ in paths if any(v == 0 for a, v in val.items() if a[0] == "ord")]
    ne = [(val, out) for val, out, _ in paths if any(v != 0 for a, v in val.items() if a[0] == "ord")]
    def built(out, name):
        return out[0] == "return" and isinstance(out[1], App) and out[1].fn == name and [repr(a) for a in out[1].args] == ["left", "right"]
    r.check(bool(eq) and all(built(o, "ElseIf") for _, o in eq), "optimize_or#same-variables->else-if", f"{f.module.relpath}:{f.node.lineno}", "", "same variables: ElseIf(left, right)",
            "conditions over the same variables are not combined with the else-if form")
    r.check(bool(ne) and all(built(o, "Union") for _, o in ne), "optimize_or#different-variables->union", f"{f.module.relpath}:{f.node.lineno}", "", "different variables: Union(left, right)",
            "conditions over different variables are not combined with the union form (solutions of the right side for other variables are dropped)")
    # what counts as a variable of a side: the filter applied to each side's unique variables is evaluated on three model nodes - a
    # variable over a domain (kept), a literal and a call of a predicate / symbolic function (both computed from the others: dropped)
    from ..modeleval import evaluate, predicate_body

    filters = []
    for c in [x for x in ast.walk(f.node) if isinstance(x, ast.Call) and isinstance(x.func, ast.Attribute) and x.func.attr == "filter" and "_unique_variables_" in src(x.func.value) and x.args]:
        a0 = c.args[0]
        fn_node = a0 if isinstance(a0, ast.Lambda) else local_defs.get(a0.id) if isinstance(a0, ast.Name) else None
        side = "left" if "left" in src(c.func.value) else ("right" if "right" in src(c.func.value) else "?")
        if side == "?" and helper is not None and c in list(ast.walk(helper)) and helper.args.args and helper.args.args[0].arg in src(c.func.value):
            # inside the helper that is applied to both sides
            filters.append(("left", c, fn_node))
            filters.append(("right", c, fn_node))
            continue
        filters.append((side, c, fn_node))
    # a variable that is quantified inside a side (exists / for_all) is bound there: it is not a variable the two sides could disagree
    # about, and counting it makes or_(exists(y, ...), p(x)) the union form, whose second pass answers every x that satisfies p twice
    qc = prog.cls("symbolic.QuantifiedConditional").qual
    excl = False
    for x in ast.walk(f.node):
        if isinstance(x, ast.BinOp) and isinstance(x.op, ast.Sub):
            names = {n.id for n in ast.walk(x.right) if isinstance(n, ast.Name)}
            for nm in names:
                defs = [a.value for a in ast.walk(f.node) if isinstance(a, ast.Assign) and len(a.targets) == 1 and isinstance(a.targets[0], ast.Name) and a.targets[0].id == nm]
                for d in defs + [x.right]:
                    for cc in [y for y in ast.walk(d) if isinstance(y, ast.Call) and isinstance(y.func, ast.Name) and y.func.id == "isinstance" and len(y.args) == 2]:
                        ks = cc.args[1].elts if isinstance(cc.args[1], ast.Tuple) else [cc.args[1]]
                        covered = {q.name for k_ in ks for q in prog.subclasses(qc) if f.module.resolve(k_) and prog.is_subclass(q.qual, f.module.resolve(k_))}
                        concrete = {q.name for q in prog.subclasses(qc, strict=True) if not prog.is_abstract_class(q.qual)}
                        if concrete and concrete <= covered and any(isinstance(y, ast.Attribute) and y.attr in ("variable", "left") for y in ast.walk(d)):
                            excl = True
    r.check(excl, "optimize_or#quantified-variables-excluded", f"{f.module.relpath}:{f.node.lineno}", "", "variables quantified inside a side are not counted among its variables",
            "a variable that exists / for_all binds inside one side is counted among that side's variables: or_(exists(y, x.a > y.a), x.b == 1) ranges over x on both sides but is "
            "built as the union form, and every x that satisfies both sides is returned twice (the(...) then reports several solutions)")
    sides = {s_ for s_, _, _ in filters}
    r.check(sides == {"left", "right"}, "optimize_or#both-sides-filtered", f"{f.module.relpath}:{f.node.lineno}", str(sorted(sides)), "the unique variables of both sides are filtered",
            "the compared sets are not the (filtered) unique variables of the left and of the right side")

    class _Lit:
        _child_vars_ = {}
        _kwargs_ = {}
        _predicate_type_ = None

    class _Var:
        _child_vars_ = {}
        _kwargs_ = {}
        _predicate_type_ = None

    class _Call:
        _child_vars_ = {"n": object()}
        _kwargs_ = {"n": object()}
        _predicate_type_ = "symbolic function"

    class _HV:
        def __init__(self, v):
            self.value = v

    models = {"a variable over a domain": (_Var(), True), "a literal": (_Lit(), False), "a call of a predicate / symbolic function": (_Call(), False)}
    for side, c, fn_node in filters:
        if fn_node is None:
            raise AnalysisError("OR-FORM: the variable filter of optimize_or is neither a lambda nor a local function")
        body = predicate_body(fn_node)
        p0 = (fn_node.args.args[0].arg)
        for label, (obj, want) in models.items():
            got = bool(evaluate(body, {p0: _HV(obj), "Literal": _Lit, "Variable": _Var}, "the variable filter of optimize_or"))
            r.check(got == want, f"optimize_or#{side}-filter:{label.split(' ')[1]}", f"{f.module.relpath}:{c.lineno}", src(body)[:100],
                    f"{label} is {'kept' if want else 'dropped'}",
                    f"{label} is {'dropped from' if want else 'counted among'} the variables of the {side} side: "
                    + ("or_(even(x), x.a == 0) is built as the union form although both sides range over x only, and every x satisfying both sides is returned twice" if not want else "variables over domains are ignored"))
    return r


def _qc_path(prog):
    # 'the(...) succeeds exactly when there is one such assignment and result-count constraints see the true number of solutions': the
    # counter the constraints read is incremented once per solution handed on
    from .c09 import qc_path

    return qc_path(prog)


def _hv_truth(prog):
    # a solution / binding / argument whose value is falsy is a value like any other: bound values are asked for presence, not for truth
    from .hvtruth import hv_truth

    return hv_truth(prog)


def node_flag(prog: Program) -> RuleResult:
    """A node met again for bindings it has answered already (its id is bound in the incoming bindings) repeats its answer.  The answer for
    *these* bindings is the value recorded in them under the node's id.  A flag kept on the node is the answer for whatever binding the
    node computed last: another evaluation of the same query consumed in between overwrites it (C03), and so does an evaluation that computes
    all its results before handing the first one on.  So the repeated answer is read from the bindings; where it is read from a node flag,
    the flag must at least be current - each result handed on before the next one is computed."""
    from ..model import walk_local
    from ..astutil import site, is_self_attr
    from ..callgraph import self_closure
    from .c10 import _stream_scan, _eager_params

    r = RuleResult("NODE-FLAG", "a node that is met again for bound values repeats the answer recorded in the bindings", floor=1)
    se = prog.cls("symbolic.SymbolicExpression")
    ep = _eager_params(prog)
    seen = set()
    n = 0
    for c in sorted(prog.subclasses(se.qual), key=lambda x: x.qual):
        f = prog.lookup(c.qual, "_evaluate__")
        if f is None or f.qual in seen:
            continue
        seen.add(f.qual)
        if not (f.cls is not None and "apply_operation" in {g.name for g in self_closure(prog, c.qual, f, True)[0]}):
            continue  # variables answer with the bound value itself (EP-BOUND); this rule is about nodes that compute a verdict
        srcp = f.params[1] if len(f.params) > 1 else "sources"
        bound = [t for t in walk_local(f.node) if isinstance(t, ast.If) and isinstance(t.test, ast.Compare) and isinstance(t.test.ops[0], ast.In) and "_id_" in src(t.test.left)]
        for t in bound:
            ys = [y for st in t.body for y in ast.walk(st) if isinstance(y, ast.Yield) and isinstance(y.value, ast.Call) and len(y.value.args) >= 2]
            if not ys:
                continue
            n += 1
            y = ys[0]
            flag_arg = y.value.args[1]

            def from_bindings(e) -> bool:
                return any(isinstance(x, ast.Subscript) and isinstance(x.value, ast.Name) and x.value.id == srcp and "_id_" in src(x.slice) for x in ast.walk(e))

            ok = from_bindings(flag_arg)
            flag = None
            if not ok and is_self_attr(flag_arg):
                flag = flag_arg.attr
                # self.<flag> = ... <sources>[self._id_] ... earlier in the same branch
                for st in t.body:
                    if st.lineno >= y.lineno:
                        break
                    if isinstance(st, ast.Assign) and any(is_self_attr(tg) and tg.attr == flag for tg in st.targets) and from_bindings(st.value):
                        ok = True
            if ok:
                r.ok(f"{f.short}#repeats-from-the-bindings", site(f, t), src(flag_arg)[:60], f"the repeated answer is read from {srcp}[self._id_]")
                continue
            hits = _stream_scan(prog, f, ep) if flag else []
            fs, _ = self_closure(prog, c.qual, f, True)
            writers = [g.short for g in fs if flag and any(isinstance(x, ast.Assign) and any(is_self_attr(tg) and tg.attr == flag for tg in x.targets) for x in walk_local(g.node))]
            r.fail(f"{f.short}#repeats-from-the-bindings", site(f, y), src(y.value)[:90],
                   f"the repeated answer is `{src(flag_arg)}`, not the value recorded under the node's id in `{srcp}`: the flag (written by {writers or '?'}) is the answer for the binding compared "
                   f"last - a second evaluation of the query consumed in between overwrites it and the suspended evaluation loses or gains a row"
                   + (f"; and {hits[0][1]}: within one evaluation it holds the answer for the last binding of the domain" if hits else ""))
    if n < 1:
        raise AnalysisError("NODE-FLAG: no computing node repeats its answer for bound values (Comparator expected)")
    return r


def _iter_text(prog):
    from .c01 import iter_text

    return iter_text(prog)


def _live_iter(prog):
    # the domain of let(T, None) is enumerated lazily: a sweep between two of its steps must not shift the list under it (a live instance
    # skipped is a solution dropped, for this evaluation and - through the domain cache - for every later one)
    from .c03 import live_iter

    return live_iter(prog)


def _carry1(prog):
    # 'exactly one result per satisfying assignment' is about the data as it is when the query is evaluated: nothing computed from the user's
    # objects during one evaluation (attribute values, verdicts) answers the next
    from .c03 import carry1

    return carry1(prog)


def run(prog: Program, tier: str) -> List[RuleResult]:
    _cache.clear()
    from .c01 import ep_neg

    # negation: a wrong dual loses satisfying assignments as easily as it admits wrong ones
    from .c03 import domain_cache

    # the caching iterator behind every variable domain: a value lost from the cache is a solution lost from every later evaluation
    from .c01 import ep_selected, cmp_apply, ep_operand
    from .c01 import ep_thread as _ep_thread
    from .c12 import arg_symbolic

    # a row whose selected value is falsy is a solution like any other
    return [guard(lambda: ep_bound(prog)), guard(lambda: ep_gate(prog)), guard(lambda: or_form(prog)), guard(lambda: ep_neg(prog)), guard(lambda: domain_cache(prog)), guard(lambda: ep_selected(prog)),
            # predicates are atoms of the fragment: an argument expression wrapped as a literal changes which assignments satisfy the atom
            guard(lambda: arg_symbolic(prog)),
            # comparisons are the other atoms: the verdict is the operator applied to the operand values of this assignment
            guard(lambda: cmp_apply(prog)),
            # an operand flagged false is dropped by the comparator: the flag must come from this evaluation, in condition position only
            guard(lambda: ep_operand(prog)), guard(lambda: _hv_truth(prog)), guard(lambda: _qc_path(prog)), guard(lambda: node_flag(prog)), guard(lambda: _carry1(prog)), guard(lambda: _live_iter(prog)), guard(lambda: _iter_text(prog)),
            # sub-expressions that share a variable are evaluated for the same value of it: otherwise one assignment is reported several times
            guard(lambda: _ep_thread(prog))]
