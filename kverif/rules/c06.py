"""C06 - ORMatic produces a valid, complete SQLAlchemy layer for every supported model.

WF-TABLE         (shared with C17) field classification over the annotation grammar
ORM-DISPATCH     every category of the grammar reaches the creator the statement demands; private
                 fields are skipped, nothing else is; mapper-argument table
ORM-IMPORTS      every module-qualified name written into the generated text has its module in
                 imported_modules on that path
ORM-NAMES        identifier templates of one namespace do not unify under the model constraints
ORM-DETERMINISM  nothing that produces output iterates an unordered set
"""
from __future__ import annotations

import ast
import os
import re
from typing import Any, Dict, List, Optional, Set, Tuple

from ..model import Program, AnalysisError, FuncInfo, walk_local, dotted, parents_of
from ..report import RuleResult, guard
from ..astutil import src, site, calls_in, call_name, is_self_attr, kwarg
from ..cfg import CFG
from ..dtable import explore, Sym, App, term
from .. import typemodel as tm

EXPLANATION = (
    "The generator is string-building code driven by a finite classification of fields. Stage 1 (WF-TABLE) evaluates the "
    "classification predicates from source over every category of the supported annotation grammar. Stage 2 (ORM-DISPATCH) "
    "pushes each category through parse_field's decision list by abstract evaluation and compares the creator reached with "
    "the statement (column for scalar/enum/JSON-list/custom, relationship for reference/collection, nothing only for private "
    "fields); the mapper-argument function is tabled over (has parent, has children, strategy). ORM-IMPORTS pairs every "
    "emission of a module-qualified name with an insertion of that module into imported_modules that dominates it or is "
    "unconditional in the constructor. ORM-NAMES unifies the format templates of identifiers that share a namespace under "
    "the model constraints (self references are allowed). ORM-DETERMINISM forbids iterating an unordered set where output is "
    "produced (string hashing is randomised per process). That the generated module imports, configures and creates its "
    "schema under SQLAlchemy is not decided."
)
ASSUMPTIONS = [
    "typing facts per annotation category as tabled in kverif/typemodel.py; __module__ of int is 'builtins', of Optional/List/Set/Type is 'typing'",
    "SQLAlchemy's interpretation of the generated declarations is outside static reach (see C05)",
    "models follow the documented grammar (appendix C of DESIGN.md)",
]

WT = "wrapped_table.WrappedTable"
OM = "ormatic.ormatic.ORMatic"

CREATOR = {
    "builtin": "create_builtin_column", "optional-builtin": "create_builtin_column", "enum": "create_builtin_column", "optional-enum": "create_builtin_column",
    "list-of-builtins": "create_json_column", "list-of-uuid": "create_json_column", "list-of-custom": "create_json_column",
    "mapped": "create_one_to_one_relationship", "optional-mapped": "create_one_to_one_relationship",
    "collection-of-mapped": "create_one_to_many_relationship",
    "type-of": "create_type_type_column",
    "custom": "create_custom_type", "optional-custom": "create_custom_type",
}


def wf_table(prog: Program) -> RuleResult:
    r = RuleResult("WF-TABLE", "field classification predicates agree with the annotation grammar in every cell", floor=100)
    tm.wf_table(prog, r)
    return r


def orm_dispatch(prog: Program) -> RuleResult:
    r = RuleResult("ORM-DISPATCH", "every grammar category reaches the stated creator; only private fields are skipped", floor=20)
    wt = prog.cls(WT)
    wf = prog.cls("wrapped_field.WrappedField")
    pf = prog.method(wt.qual, "parse_field", inherited=False)
    creators = {n for n in wt.methods if n.startswith("create_")}

    def inline(q: str) -> bool:
        return ".WrappedField." in q or ".class_diagrams.utils." in q

    for cat, anns in tm.CATEGORIES.items():
        reached = set()
        for ann in anns:
            ep = tm.inner_of(ann) if tm.EXPECTED[cat]["endpoint"] == "inner" else ann
            preset = {
                ("in", repr(ep), "self.ormatic.mapped_classes"): ep is tm.MAPPED,
                ("in", repr(ep), "self.ormatic.type_mappings"): ep is tm.CUSTOM,
            }
            funcs = dict(tm.FUNCS)
            funcs["all"] = lambda g: all(g)
            try:
                paths = explore(
                    prog, pf, [Sym("self"), Sym("wrapped_field")], type_of={"wrapped_field": wf.qual},
                    const_attrs={"wrapped_field.resolved_type": ann}, globals_=tm.GLOBALS, funcs=funcs, inline=inline, preset=preset,
                )
            except tm.TypeErr as x:
                # the classification applies a class-only operation to this annotation: TypeError when the layer is generated
                reached.add(("raise:TypeError",))
                continue
            for val, outcome, calls in paths:
                extra = [a for a in val if a not in preset]
                if extra:
                    raise AnalysisError(f"ORM-DISPATCH: parse_field consults {extra} for {ann!r}, outside the tabled facts")
                cs = [c.fn.split(".")[-1] for c in calls if c.fn.startswith("self.create_")]
                reached.add(tuple(cs) if outcome[0] == "return" else ("raise:" + str(outcome[1]),))
        want = {(CREATOR[cat],)}
        r.check(
            reached == want, f"WrappedTable.parse_field#{cat}", site(pf), f"parse_field({', '.join(map(repr, anns))})",
            f"-> {CREATOR[cat]}",
            f"{cat} fields reach {sorted(reached)}; the statement demands {CREATOR[cat]} "
            + ("(a public field of the supported grammar is silently dropped)" if () in reached else ""),
        )
    # private skip and nothing else
    pfs = prog.method(wt.qual, "parse_fields", inherited=False)
    cfg = CFG(pfs.node)
    loops = [n for n in cfg.nodes if n.kind == "for" and src(n.stmt.iter) == "self.fields"]
    if len(loops) != 1:
        raise AnalysisError("ORM-DISPATCH: parse_fields does not loop over self.fields")
    lp = loops[0]
    fv = lp.stmt.target.id
    calls_pf = {n.id for n in cfg.nodes if n.kind == "stmt" and lp.id in n.loops and any(call_name(c) == "parse_field" and c.args and src(c.args[0]) == fv for c in calls_in(n.stmt))}
    priv_skip = set()
    for t in cfg.nodes:
        if t.kind == "test" and lp.id in t.loops and isinstance(t.stmt, ast.If) and src(t.stmt.test) in (f"{fv}.field.name.startswith('_')", f'{fv}.field.name.startswith("_")'):
            for n in cfg.nodes:
                if isinstance(n.stmt, ast.Continue) and t.true_succ is not None and cfg.dominates(t.true_succ, n.id):
                    priv_skip.add(n.id)
    entry = [s for s in lp.succ if lp.id in cfg.nodes[s].loops]
    leak = None
    for e in entry:
        leak = leak or cfg.path_avoiding(e, lp.id, calls_pf | priv_skip)
    r.check(bool(calls_pf) and leak is None, "WrappedTable.parse_fields#all-public", site(pfs), "", "every field reaches parse_field unless it is private",
            f"a public field can bypass parse_field: {cfg.describe(leak) if leak else 'parse_field is never called'}")
    r.check(bool(priv_skip), "WrappedTable.parse_fields#private-skipped", site(pfs), "", "fields starting with an underscore are skipped", "private fields are not skipped")
    after = [n for n in cfg.nodes if n.kind == "stmt" and not n.loops and any(call_name(c) == "create_mapper_args" for c in calls_in(n.stmt))]
    r.check(bool(after), "WrappedTable.parse_fields#mapper-args", site(pfs), "", "mapper arguments are created for every table", "mapper arguments are never created")
    # mapper-argument table
    cm = prog.method(wt.qual, "create_mapper_args", inherited=False)
    paths = explore(prog, cm, [Sym("self")], self_type=wt.qual, inline=lambda q: False)
    for has_parent in (False, True):
        for has_children in (False, True):
            for joined in (False, True):
                keys = None
                for val, outcome, calls in paths:
                    ok = True
                    for a, v in val.items():
                        if a[0] == "is" and "self.parent_table" in a[1:]:
                            ok = ok and (v == (not has_parent))
                        elif a[0] == "truth" and a[1] == "self.has_children":
                            ok = ok and v == has_children
                        elif a[0] == "ord" and "inheritance_strategy" in (a[1] + a[2]):
                            ok = ok and ((v == 0) == joined)
                        else:
                            raise AnalysisError(f"ORM-DISPATCH: create_mapper_args consults {a}")
                    if ok:
                        ks = set()
                        for c in calls:
                            if c.fn == "self.mapper_args.update" and c.args and isinstance(c.args[0], App) and c.args[0].fn == "dict":
                                ks |= {str(k).strip("'") for k, _ in c.args[0].args}
                            if c.fn == "self.custom_columns.append":
                                ks.add("+polymorphic-column")
                        keys = ks if keys is None else keys | ks
                want = set()
                if not has_parent and has_children:
                    want = {"polymorphic_on", "polymorphic_identity", "+polymorphic-column"}
                if has_parent:
                    want = {"polymorphic_identity"} | ({"inherit_condition"} if joined else set())
                lab = f"parent={'y' if has_parent else 'n'},children={'y' if has_children else 'n'},{'joined' if joined else 'single'}"
                r.check(keys == want, f"WrappedTable.create_mapper_args#{lab}", site(cm), lab, f"{sorted(want)}", f"mapper arguments {sorted(keys or [])}, the inheritance layout needs {sorted(want)}")
    return r


# ---- imports -----------------------------------------------------------------------------------
MODULE_OF_CONST = {"int": "builtins", "str": "builtins", "float": "builtins", "bool": "builtins", "Optional": "typing", "List": "typing", "Set": "typing", "Type": "typing"}


def _module_class(e: ast.expr, f: FuncInfo) -> str:
    """abstract name of the module an emitted/added expression denotes"""
    if isinstance(e, ast.Constant) and isinstance(e.value, str):
        return e.value
    if isinstance(e, ast.Attribute) and e.attr == "__module__":
        e = e.value
    if isinstance(e, ast.Name):
        if e.id in MODULE_OF_CONST:
            return MODULE_OF_CONST[e.id]
        # local assigned from a conditional over typing constants / a mapping lookup
        for s in walk_local(f.node):
            if isinstance(s, ast.Assign) and len(s.targets) == 1 and src(s.targets[0]) == e.id:
                v = s.value
                if isinstance(v, ast.IfExp):
                    a, b = _module_class(v.body, f), _module_class(v.orelse, f)
                    return a if a == b else f"{a}|{b}"
                if isinstance(v, ast.Subscript) and "type_mappings" in src(v.value):
                    return "typemap-value"
        for lp in walk_local(f.node):
            if isinstance(lp, ast.For) and isinstance(lp.target, ast.Tuple) and "type_mappings" in src(lp.iter):
                names = [src(x) for x in lp.target.elts]
                if e.id in names:
                    return "typemap-key" if names.index(e.id) == 0 else "typemap-value"
        return "var:" + e.id
    s = src(e)
    if s.endswith(".type_endpoint"):
        return "endpoint"
    if s.endswith("wrapped_clazz.clazz"):
        return "table-class"
    return "expr:" + s


def orm_imports(prog: Program) -> RuleResult:
    r = RuleResult("ORM-IMPORTS", "every emitted module-qualified name has its module imported on that path", floor=8)
    wt = prog.cls(WT)
    om = prog.cls(OM)
    # unconditional insertions: ORMatic.__post_init__ and what it calls on self
    uncond: Set[str] = set()
    pi = prog.method(om.qual, "__post_init__", inherited=False)
    todo = [pi] + [om.methods[c.func.attr] for c in calls_in(pi.node) if isinstance(c.func, ast.Attribute) and is_self_attr(c.func) and c.func.attr in om.methods]
    for g in todo:
        for c in calls_in(g.node):
            if call_name(c) == "add" and "imported_modules" in src(c.func) and c.args:
                uncond.add(_module_class(c.args[0], g))
    r.note(f"unconditional imports: {sorted(uncond)}")
    nsites = 0
    for name, f in sorted(wt.methods.items()):
        cfg = None
        emits: List[Tuple[ast.AST, str]] = []
        for c in calls_in(f.node):
            if call_name(c) == "module_and_class_name" and c.args:
                emits.append((c, _module_class(c.args[0], f)))
        for n in walk_local(f.node):
            if isinstance(n, ast.FormattedValue) and isinstance(n.value, ast.Attribute) and n.value.attr == "__module__":
                emits.append((n.value, _module_class(n.value, f)))
        if not emits:
            continue
        adds = []
        for c in calls_in(f.node):
            if call_name(c) == "add" and "imported_modules" in src(c.func) and c.args:
                adds.append((c, _module_class(c.args[0], f)))
        cfg = CFG(f.node)
        seen_keys = set()
        for node, mc in emits:
            nsites += 1
            key = f"WrappedTable.{name}#{mc}"
            if key in seen_keys:
                continue
            seen_keys.add(key)
            parts = mc.split("|")
            ok = True
            for p in parts:
                local = False
                en = cfg.node_of(node)
                for a, amc in adds:
                    an = cfg.node_of(a)
                    if amc == p and an is not None and en is not None and (cfg.dominates(an, en) or cfg.postdominates(an, en)):
                        local = True
                if not (p in uncond or local):
                    # an endpoint that is necessarily a mapped class / a type-mapping key is imported by the constructor
                    if p == "endpoint" and name in ("create_one_to_one_relationship", "create_one_to_many_relationship"):
                        continue
                    ok = False
            r.check(
                ok, key, site(f, node), src(node),
                f"module '{mc}' is imported (unconditionally or on this path)",
                f"the generated text names a member of module '{mc}' here, but that module is added to imported_modules neither unconditionally "
                f"nor on this path: a model that does not pull it in elsewhere yields a module that cannot resolve the name",
            )
    if nsites < 8:
        raise AnalysisError(f"ORM-IMPORTS: only {nsites} emission sites found")
    return r


# ---- names -------------------------------------------------------------------------------------
def _template(e: ast.expr) -> Optional[Tuple[str, ...]]:
    """f-string -> tuple of parts; holes are written as {expr}"""
    if isinstance(e, ast.JoinedStr):
        out = []
        for v in e.values:
            if isinstance(v, ast.Constant):
                out.append(str(v.value))
            else:
                out.append("{" + src(v.value) + "}")
        return tuple(out)
    return None


def orm_names(prog: Program) -> RuleResult:
    r = RuleResult("ORM-NAMES", "identifier templates sharing a namespace cannot coincide for a model of the grammar", floor=2)
    wt = prog.cls(WT)
    f = prog.method(wt.qual, "create_one_to_many_relationship", inherited=False)
    locals_ = {}
    for s in walk_local(f.node):
        if isinstance(s, ast.Assign) and isinstance(s.targets[0], ast.Name):
            locals_[s.targets[0].id] = s.value
    ctor = [c for c in calls_in(f.node) if call_name(c) == "AssociationTable"]
    if len(ctor) != 1:
        raise AnalysisError("ORM-NAMES: association table construction not found")
    lk, rk = kwarg(ctor[0], "left_foreign_key"), kwarg(ctor[0], "right_foreign_key")
    lt = _template(locals_.get(src(lk), lk))
    rt = _template(locals_.get(src(rk), rk))
    if lt is None or rt is None:
        raise AnalysisError("ORM-NAMES: association column names are not format templates")
    # unify: replace the target table by self (allowed: List[Self]) and compare
    target_var = None
    for nme, v in locals_.items():
        if isinstance(v, ast.Call) and call_name(v) == "get_table_of_wrapped_field":
            target_var = nme
    unified = tuple(p.replace(target_var + ".", "self.") if target_var else p for p in rt)
    coincide = unified == lt
    r.check(
        not coincide, "WrappedTable.create_one_to_many_relationship#association-columns", site(f, ctor[0]), f"{''.join(lt)} / {''.join(rt)}",
        "the two columns of an association table are distinct for every model",
        f"left column {''.join(lt)} and right column {''.join(rt)} are the same template up to the table: for a collection of the own class "
        f"(children: List[Self]) the association table gets two identically named columns and the generated module cannot be imported",
    )
    nk = kwarg(ctor[0], "name")
    nm = _template(locals_.get(src(nk), nk)) if nk is not None else None
    ok = nm is not None and any("field.name" in p for p in nm) and any("tablename" in p for p in nm)
    r.check(ok, "WrappedTable.create_one_to_many_relationship#association-table-name", site(f), "".join(nm or ()), "unique per (owner table, field)",
            "association table names are not unique per owner table and field: two collections of one target type collide")
    g = prog.method(wt.qual, "create_one_to_one_relationship", inherited=False)
    fk = None
    glocals = {}
    for s in walk_local(g.node):
        if isinstance(s, ast.Assign) and isinstance(s.targets[0], ast.Name):
            glocals[s.targets[0].id] = s.value
    # the name of the foreign key column: first argument of the column this method adds
    for c in calls_in(g.node):
        if call_name(c) == "append" and isinstance(c.func, ast.Attribute) and is_self_attr(c.func.value) and "foreign_key" in c.func.value.attr and c.args \
                and isinstance(c.args[0], ast.Call) and c.args[0].args:
            a0 = c.args[0].args[0]
            fk = fk or _template(glocals.get(src(a0), a0))
    ok = fk is not None and any("field.name" in p for p in fk) and len([p for p in fk if not p.startswith("{")]) >= 0 and any("foreign_key_postfix" in p for p in fk)
    r.check(ok, "WrappedTable.create_one_to_one_relationship#fk-name", site(g), "".join(fk or ()), "foreign key column = field name + postfix (distinct from the relationship attribute)",
            "the foreign-key column is not derived from the field name plus the postfix: it collides with the relationship or with another reference")
    return r


# ---- determinism -------------------------------------------------------------------------------
SETISH = ("set", "frozenset", "Set", "FrozenSet")


def _is_set_expr(e: ast.expr, f: FuncInfo, prog: Program) -> Optional[str]:
    if isinstance(e, (ast.Set, ast.SetComp)):
        return "set display"
    if isinstance(e, ast.Call) and isinstance(e.func, ast.Name) and e.func.id in ("set", "frozenset"):
        return e.func.id + "()"
    if isinstance(e, ast.BinOp) and isinstance(e.op, (ast.BitAnd, ast.BitOr, ast.Sub, ast.BitXor)):
        return _is_set_expr(e.left, f, prog) or _is_set_expr(e.right, f, prog)
    if isinstance(e, ast.Name):
        for s in walk_local(f.node):
            if isinstance(s, ast.AnnAssign) and src(s.target) == e.id and any(src(s.annotation).startswith(k) for k in ("set", "Set", "frozenset")):
                return f"{e.id}: {src(s.annotation)}"
            if isinstance(s, ast.Assign) and len(s.targets) == 1 and src(s.targets[0]) == e.id:
                r = _is_set_expr(s.value, f, prog)
                if r:
                    return r
    if isinstance(e, ast.Attribute) and isinstance(e.value, ast.Name) and e.value.id == "self" and f.cls is not None:
        fi = prog.lookup_attr(f.cls.qual, e.attr)
        if fi is not None and fi.annotation is not None:
            a = fi.ann_text
            if re.match(r"^(typing\.)?(Set|set|FrozenSet|frozenset)\b", a):
                return f"self.{e.attr}: {a}"
    return None


def _det_scan(prog: Program, funcs, r: Optional[RuleResult]):
    hits = []
    for f in funcs:
        for n in walk_local(f.node):
            iters = []
            if isinstance(n, ast.For):
                iters.append((n.iter, n))
            elif isinstance(n, (ast.ListComp, ast.GeneratorExp, ast.DictComp)):
                iters += [(g.iter, n) for g in n.generators]
            for it, node in iters:
                why = _is_set_expr(it, f, prog)
                if why:
                    hits.append((f, node, why))
    return hits


def orm_determinism(prog: Program) -> RuleResult:
    r = RuleResult("ORM-DETERMINISM", "no output-producing iteration over an unordered set", floor=3)
    mods = [prog.module("ormatic.ormatic"), prog.module("ormatic.wrapped_table"), prog.module("ormatic.sqlalchemy_generator")]
    funcs = [f for f in prog.functions.values() if f.module in mods]
    hits = _det_scan(prog, funcs, r)
    for f, node, why in hits:
        # sets used only to build another set / membership are harmless: flag list/generator/for producing output
        r.fail(f"{f.short}#iterates-set", site(f, node), src(node)[:120], f"iterates {why}: the order of the generated text depends on the process's hash seed")
    r.ok("ormatic#scan", mods[0].relpath, "", f"{len(funcs)} functions scanned, {len(hits)} set iterations")
    # fields iterated by the template must be ordered containers
    tpath = os.path.join(os.path.dirname(mods[0].path), "templates", "sqlalchemy_model.py.jinja")
    try:
        ttext = open(tpath).read() if tpath not in prog.overlay else prog.overlay[tpath]
    except OSError:
        raise AnalysisError("ORM-DETERMINISM: template vanished")
    om, wt = prog.cls(OM), prog.cls(WT)
    for m in re.finditer(r"{%\s*for\s+[\w, ]+\s+in\s+(\w+)\.(\w+)", ttext):
        owner, attr = m.group(1), m.group(2)
        c = om if owner == "ormatic" else wt
        fi = prog.lookup_attr(c.qual, attr)
        if fi is None or fi.annotation is None:
            continue
        a = fi.ann_text
        fac = src(fi.field_kw("default_factory")) if fi.field_call is not None else ""
        unordered = bool(re.match(r"^(typing\.)?(Set|set|FrozenSet|frozenset)\b", a)) or fac in ("set", "frozenset")
        r.check(not unordered, f"template#{owner}.{attr}", f"{os.path.relpath(tpath, '/repo')}", m.group(0), f"{a} ({fac or 'ordered'})",
                f"the template iterates {owner}.{attr}, an unordered {a}/{fac}: generated imports/classes change order between runs")
    # positive control: the scanner must see a set iteration in a tiny fragment
    ctl = ast.parse("def g(self):\n    s = {x.name for x in self.fields}\n    return [n for n in s]\n").body[0]

    class _F:
        node = ctl
        cls = None
    r.control_ok = bool(_det_scan(prog, [_F], None))
    return r


def _eq_identity_grounded(prog: Program, q: str, seen=None) -> bool:
    """Can two *distinct* instances of class q compare equal?  False ('not grounded') if they can."""
    seen = seen or set()
    if q in seen or q not in prog.classes:
        return False  # builtin / external value types compare by value; a cycle grounds nothing
    seen = seen | {q}
    c = prog.classes[q]
    eqm = prog.lookup(q, "__eq__")
    if eqm is not None:
        rets = [n.value for n in walk_local(eqm.node) if isinstance(n, ast.Return) and n.value is not None]
        txt = " ".join(src(x) for x in rets)
        if any(isinstance(x, ast.Compare) and any(isinstance(o, ast.Is) for o in x.ops) and "self" in src(x) for v in rets for x in ast.walk(v)) and "==" not in txt:
            return True
        # attribute paths compared by the explicit __eq__: self.a.b == other.a.b -> ground the type of the last attribute
        paths = set()
        for v in rets:
            for x in ast.walk(v):
                if isinstance(x, ast.Attribute):
                    chain = []
                    y = x
                    while isinstance(y, ast.Attribute):
                        chain.append(y.attr)
                        y = y.value
                    if isinstance(y, ast.Name) and y.id == eqm.params[0]:
                        paths.add(tuple(reversed(chain)))
        maximal = {p_ for p_ in paths if not any(o != p_ and o[: len(p_)] == p_ for o in paths)}
        ok = False
        for path in maximal:
            t = q
            for a in path:
                t = prog.field_type(t, a) if t in prog.classes else None
            if t in prog.classes and _eq_identity_grounded(prog, t, seen):
                ok = True
        return ok
    if c.is_dataclass or any(prog.classes[b].is_dataclass for b in prog.mro(q) if b in prog.classes):
        own_dc = c.is_dataclass
        if own_dc and c.decorator_kw("dataclass", "eq") is False:
            return True
        flds = [n for n, fi in prog.fields(q).items() if not fi.is_classvar and not fi.is_initvar and not (fi.field_kw("compare") is not None and getattr(fi.field_kw("compare"), "value", True) is False)]
        return any(_field_grounded(prog, q, f, seen) for f in flds)
    return True  # plain class without __eq__: object identity


def _field_grounded(prog: Program, q: str, fld: str, seen) -> bool:
    t = prog.field_type(q, fld)
    if t in prog.classes:
        return _eq_identity_grounded(prog, t, seen)
    return False


def orm_memo(prog: Program) -> RuleResult:
    """A memoised method that mutates its receiver is a procedure that must run once *per object*: the cache key (the
    receiver's equality) must not let two distinct objects compare equal, or the second generation in one process is skipped."""
    from ..effects import write_summary

    r = RuleResult("ORM-MEMO", "memoised generator steps are keyed by object identity", floor=1)
    n = 0
    for c in sorted(prog.classes.values(), key=lambda x: x.qual):
        if ".ormatic." not in c.qual and ".class_diagrams." not in c.qual:
            continue
        summ = None
        for name, f in sorted(c.methods.items()):
            if not f.is_lru_cache or f.is_classmethod or f.is_staticmethod:
                continue
            summ = summ or write_summary(prog, c)
            effectful = bool(summ.get(name)) or any(call_name(x) in ("append", "update", "add") for x in calls_in(f.node))
            reads_state = any(isinstance(x, ast.Attribute) and isinstance(x.value, ast.Name) and x.value.id == f.params[0] for x in walk_local(f.node))
            if not (effectful or reads_state):
                continue
            n += 1
            grounded = _eq_identity_grounded(prog, c.qual)
            r.check(
                grounded, f"{c.name}.{name}#cache-key", site(f), f"@lru_cache on {c.name}.{name}",
                "two distinct receivers never compare equal (equality is grounded in object identity)",
                f"{c.name}.{name} is memoised per receiver, but {c.name} equality lets two distinct objects compare equal (no compared field is identity-based): the step is skipped for the "
                f"second object - a second ORMatic run in the same process generates DAOs without columns and relationships",
            )
    if n == 0:
        raise AnalysisError("ORM-MEMO: no memoised stateful method found (WrappedTable.parse_fields is the confirmed instance)")
    # what a memoised step has produced stays: the step will not run again for the same receiver, so a list it appended to must not be
    # emptied or replaced by anything but the constructor - a "clean slate" before a second make_all_tables() is a slate the memoised
    # parse_fields never refills
    from ..callgraph import self_closure

    produced = {}
    for c in sorted(prog.classes.values(), key=lambda x: x.qual):
        if ".ormatic." not in c.qual:
            continue
        for name, f in sorted(c.methods.items()):
            if not f.is_lru_cache:
                continue
            for g in self_closure(prog, c.qual, f, False)[0]:
                for x in calls_in(g.node):
                    if isinstance(x.func, ast.Attribute) and x.func.attr in ("append", "add", "extend", "update", "setdefault", "insert") and isinstance(x.func.value, ast.Attribute):
                        produced.setdefault(x.func.value.attr, f)
    for fld, f in sorted(produced.items()):
        wiped = None
        for g in sorted(prog.functions.values(), key=lambda x: x.qual):
            if ".ormatic." not in g.qual or g.name in ("__init__", "__post_init__"):
                continue
            for x in walk_local(g.node):
                if isinstance(x, ast.Assign) and any(isinstance(t, ast.Attribute) and t.attr == fld for t in x.targets):
                    wiped = wiped or (g, x)
                if isinstance(x, ast.Call) and isinstance(x.func, ast.Attribute) and x.func.attr == "clear" and isinstance(x.func.value, ast.Attribute) and x.func.value.attr == fld:
                    wiped = wiped or (g, x)
                if isinstance(x, ast.Delete) and any(isinstance(t, (ast.Subscript, ast.Attribute)) and fld in src(t) for t in x.targets):
                    wiped = wiped or (g, x)
        r.check(wiped is None, f"{fld}#produced-by-a-memoised-step-and-kept", site(wiped[0], wiped[1]) if wiped else site(f), src(wiped[1])[:80] if wiped else f"filled by {f.short}",
                f"nothing but a constructor empties or replaces .{fld}",
                f"{wiped[0].short if wiped else ''} resets .{fld}, which the memoised {f.short} fills: the step does not run again for the same receiver, so after the reset the entries are gone "
                "for good - a second make_all_tables() / to_sqlalchemy_file() from the same ORMatic writes relationships with secondary='..._association' and no such Table")
    return r


def orm_order(prog: Program) -> RuleResult:
    """A DAO class is emitted after the DAO it inherits from. Which DAO that is, is decided by WrappedTable._find_direct_parent_wrapped - the
    nearest ancestor *along the MRO* that is part of the diagram, skipping classes that are not. The graph whose topological order is the
    emission order has to know the same dependency: built from the diagram's direct-base edges alone it has no edge GA -> GC when GB(GA),
    GC(GB) and GB is not in the diagram, and `class GCDAO(GADAO)` can come out before `class GADAO`."""
    r = RuleResult("ORM-ORDER", "the emission order of the DAOs knows every parent the DAOs are given", floor=1)
    wt = prog.cls("wrapped_table.WrappedTable")
    om = prog.cls("ormatic.ORMatic")
    parent = prog.lookup(wt.qual, "_find_direct_parent_wrapped")
    graph = prog.lookup(om.qual, "_create_inheritance_graph")
    if parent is None or graph is None:
        raise AnalysisError("ORM-ORDER: WrappedTable._find_direct_parent_wrapped / ORMatic._create_inheritance_graph vanished")
    walks = lambda f: any(isinstance(x, ast.Attribute) and x.attr == "__mro__" for x in walk_local(f.node)) or any(call_name(c) in ("mro", "parent_table", "_find_direct_parent_wrapped") for c in calls_in(f.node)) \
        or any(isinstance(x, ast.Attribute) and x.attr == "parent_table" for x in walk_local(f.node))
    r.check(walks(graph) or not walks(parent), "ORMatic._create_inheritance_graph#nearest-diagram-ancestor", site(graph), "", "the ordering graph has an edge from the nearest ancestor in the diagram",
            "the DAO parent is the nearest diagram class along the MRO, the ordering graph only has the diagram's direct-base edges: with an intermediate class left out of the diagram "
            "(GA, GB(GA), GC(GB); diagram [GA, GC]) GCDAO(GADAO) is written before GADAO and the generated module fails to import (NameError) - in the other declaration order it works")
    return r


def orm_fields_once(prog: Program) -> RuleResult:
    """'One DAO per class, mirroring the inheritance chain, with a column for every public field': a field is mapped by the DAO of the class
    that declares it and by no DAO below.  The table keeps the fields of its class whose names are not *inherited*; that set has to hold
    the fields of every ancestor - either the class-level field lists (a dataclass lists inherited fields too) or the own fields of every
    table up the chain.  The own fields of the direct parent table alone leave out what the parent itself inherited: the grandchild maps
    the grandparent's columns, relationships and association tables a second time."""
    r = RuleResult("ORM-FIELDS-ONCE", "the fields a table leaves to its ancestors are those of every ancestor", floor=1)
    wt = prog.cls(WT)
    f = wt.methods.get("fields")
    if f is None:
        raise AnalysisError("ORM-FIELDS-ONCE: WrappedTable.fields vanished")
    # the filter: <own class fields> ... if <name> not in S
    sets = []
    for x in walk_local(f.node):
        tests = x.ifs if isinstance(x, ast.comprehension) else [x.test] if isinstance(x, ast.If) else []
        for t in tests:
            for c in [y for y in ast.walk(t) if isinstance(y, ast.Compare) and len(y.ops) == 1 and isinstance(y.ops[0], (ast.NotIn, ast.In)) and isinstance(y.comparators[0], ast.Name)]:
                if "name" in src(c.left):
                    sets.append(c.comparators[0].id)
    if not sets:
        raise AnalysisError("ORM-FIELDS-ONCE: WrappedTable.fields no longer filters its class's fields by a set of names")
    # the set the class's own field list is filtered by (further filters - fields removed by an alternative mapping - come after it)
    own = [x for x in walk_local(f.node) if isinstance(x, ast.comprehension) and src(x.iter).endswith("self.wrapped_clazz.fields")]
    own_sets = [c.comparators[0].id for x in own for t in x.ifs for c in ast.walk(t) if isinstance(c, ast.Compare) and isinstance(c.ops[0], ast.NotIn) and isinstance(c.comparators[0], ast.Name)]
    if not own_sets:
        raise AnalysisError("ORM-FIELDS-ONCE: the class's own field list is no longer filtered by a set of inherited names")
    S = own_sets[0]
    par = parents_of(f.node)
    # walkers: locals that step up the chain of parent tables inside a while loop
    walkers = set()
    for w in [x for x in walk_local(f.node) if isinstance(x, ast.While)]:
        for st in ast.walk(w):
            if isinstance(st, ast.Assign) and len(st.targets) == 1 and isinstance(st.targets[0], ast.Name) and isinstance(st.value, ast.Attribute) and st.value.attr == "parent_table" \
                    and isinstance(st.value.value, ast.Name) and st.value.value.id == st.targets[0].id:
                walkers.add(st.targets[0].id)
    sources = []
    for x in walk_local(f.node):
        gens = []
        if isinstance(x, ast.Call) and isinstance(x.func, ast.Attribute) and x.func.attr in ("update", "add") and isinstance(x.func.value, ast.Name) and x.func.value.id == S:
            gens = [g for a in x.args for g in ast.walk(a) if isinstance(g, ast.comprehension)]
        if isinstance(x, (ast.Assign, ast.AugAssign, ast.AnnAssign)) and x.value is not None:
            tg = x.targets[0] if isinstance(x, ast.Assign) else x.target
            if isinstance(tg, ast.Name) and tg.id == S:
                gens = [g for g in ast.walk(x.value) if isinstance(g, ast.comprehension)]
        for g in gens:
            it = g.iter
            if isinstance(it, ast.Attribute) and it.attr == "fields":
                owner = it.value
                in_walk = False
                cur = x
                while cur in par:
                    cur = par[cur]
                    if isinstance(cur, ast.While):
                        in_walk = True
                root = owner
                while isinstance(root, ast.Attribute):
                    root = root.value
                class_level = isinstance(owner, ast.Attribute) and owner.attr == "wrapped_clazz"
                walks = in_walk and isinstance(root, ast.Name) and root.id in walkers
                sources.append((it, class_level, walks))
        # a loop that adds names one by one
    ok = any(cl or wk for _, cl, wk in sources)
    r.check(bool(sources) and ok, "WrappedTable.fields#every-ancestor", site(f, sources[0][0]) if sources else site(f), "; ".join(src(it) for it, _, _ in sources)[:120],
            "the inherited names come from the class-level field lists of the ancestors or from the own fields of every table up the chain",
            f"the inherited names are taken from {', '.join(src(it) for it, _, _ in sources) or 'nothing'} only - the own fields of the direct parent table, which leave out what that table "
            f"inherits: a DAO two levels below the class that declares a field maps the field again (duplicate columns, a second relationship and association table)")
    return r


def orm_id_memo(prog: Program) -> RuleResult:
    """'Generation is deterministic' over every generation in a process: what one generation remembers must not be readable by the next.  A
    module-level (or class-level) collection keyed by `id(obj)` outlives the objects whose ids it holds; CPython hands a freed address to the
    next object, and a table of a later generation is taken for one that 'was parsed already' - its DAO comes out without columns.  State
    about an object is kept on the object (or keyed by the object itself)."""
    r = RuleResult("ORM-ID-MEMO", "nothing in the generator remembers objects by id() beyond their lifetime", floor=1)
    n = 0
    for m in sorted(prog.modules.values(), key=lambda x: x.name):
        if ".ormatic." not in m.name and not m.name.endswith(".ormatic"):
            continue
        n += 1
        shared = {t.id for st in m.tree.body if isinstance(st, (ast.Assign, ast.AnnAssign)) for t in ([st.target] if isinstance(st, ast.AnnAssign) else st.targets) if isinstance(t, ast.Name)}
        for c in [c for c in prog.classes.values() if c.module is m]:
            shared |= {a for a, fi in c.attrs.items() if fi.value is not None and not c.is_dataclass}
        bad = None
        for f in [f for f in prog.functions.values() if f.module is m]:
            for x in walk_local(f.node):
                key = None
                if isinstance(x, ast.Call) and isinstance(x.func, ast.Attribute) and x.func.attr in ("add", "append", "setdefault") and x.args:
                    key, holder = x.args[0], x.func.value
                elif isinstance(x, ast.Subscript) and isinstance(x.ctx, ast.Store):
                    key, holder = x.slice, x.value
                elif isinstance(x, ast.Compare) and len(x.ops) == 1 and isinstance(x.ops[0], (ast.In, ast.NotIn)):
                    key, holder = x.left, x.comparators[0]
                if key is None:
                    continue
                by_id = any(isinstance(y, ast.Call) and isinstance(y.func, ast.Name) and y.func.id == "id" for y in ast.walk(key))
                root = holder
                while isinstance(root, ast.Attribute):
                    root = root.value
                is_shared = (isinstance(holder, ast.Name) and holder.id in shared) or (isinstance(holder, ast.Attribute) and isinstance(root, ast.Name) and root.id in ("cls",) + tuple(c.name for c in prog.classes.values() if c.module is m))
                if by_id and is_shared:
                    bad = bad or (f, x)
        r.check(bad is None, f"{m.name.split('.')[-1]}#no-id-keyed-shared-memo", site(bad[0], bad[1]) if bad else m.relpath, src(bad[1])[:80] if bad else "", "no shared collection is keyed by id()",
                f"`{src(bad[1])[:70] if bad else ''}` ({bad[0].short if bad else ''}) keys a collection that outlives the object by the object's id(): an object of a later generation that is allocated at "
                "a freed address is taken for the earlier one (a table 'parsed already' is written without its columns, in some later generation of the process)")
    if n < 1:
        raise AnalysisError("ORM-ID-MEMO: no module of the generator found")
    return r


def orm_assoc_name(prog: Program) -> RuleResult:
    """'A relationship for every collection of mapped classes' through an association table of its own: the table's name is made from the
    owning table and the field, and has to stay a function of both.  A name that is cut (to a backend's identifier limit, say) makes two
    collections of one class with a long common prefix share a name: the generated module defines the table twice and does not import."""
    r = RuleResult("ORM-ASSOC-NAME", "the name of an association table is made from the whole table name and the whole field name", floor=1)
    wt = prog.cls(WT)
    f = wt.methods.get("create_one_to_many_relationship")
    if f is None:
        raise AnalysisError("ORM-ASSOC-NAME: WrappedTable.create_one_to_many_relationship vanished")
    names = [x for x in walk_local(f.node) if isinstance(x, ast.Assign) and len(x.targets) == 1 and isinstance(x.targets[0], ast.Name) and "association" in x.targets[0].id and "name" in x.targets[0].id]
    if not names:
        raise AnalysisError("ORM-ASSOC-NAME: no association table name is built")
    # every expression that flows into the name
    todo = [x.value for x in names]
    seen_names = set()
    parts = []
    while todo:
        e = todo.pop()
        parts.append(e)
        for y in ast.walk(e):
            if isinstance(y, ast.Name) and y.id not in seen_names:
                seen_names.add(y.id)
                todo += [z.value for z in walk_local(f.node) if isinstance(z, ast.Assign) and any(isinstance(t, ast.Name) and t.id == y.id for t in z.targets)]
    cut = [y for e in parts for y in ast.walk(e) if isinstance(y, ast.Subscript) and isinstance(y.slice, ast.Slice)]
    cut += [y for e in parts for y in ast.walk(e) if isinstance(y, ast.Call) and (call_name(y) in ("hash", "shorten", "truncate") or (isinstance(y.func, ast.Attribute) and y.func.attr in ("ljust", "rjust", "format_map")))]
    txt = " ".join(src(e) for e in parts)
    whole = "tablename" in txt and "field" in txt
    r.check(whole and not cut, f"{f.short}#name-of-table-and-field", site(f, cut[0]) if cut else site(f, names[0]), src(cut[0] if cut else names[0].value)[:80], "table name and field name enter the name unabridged",
            f"the name is {'cut (`' + src(cut[0])[:50] + '`)' if cut else 'not made from the table and the field'}: two collection fields of one class whose names agree in a long prefix get the same "
            "association table - the module defines it twice and fails to import")
    return r


def orm_parent(prog: Program) -> RuleResult:
    """'One DAO per class, mirroring the inheritance chain': the DAO of a class derives from the DAO of its nearest *mapped* ancestor - which need
    not be a direct base (A mapped, B(A) left out of the class list, C(B) mapped: CDAO derives from ADAO).  The ordering graph finds that
    ancestor along the MRO (ORM-ORDER); the table has to look in the same place, or CDAO derives from Base and maps A's columns again."""
    r = RuleResult("ORM-PARENT", "the parent table of a class is looked for along the whole MRO", floor=1)
    wt = prog.cls(WT)
    f = wt.methods.get("_find_direct_parent_wrapped") or next((m for m in wt.methods.values() if "parent" in m.name and any(isinstance(x, ast.Attribute) and x.attr in ("__mro__", "__bases__") for x in walk_local(m.node))), None)
    if f is None:
        raise AnalysisError("ORM-PARENT: no method of WrappedTable looks for the parent class")
    attrs = {x.attr for x in walk_local(f.node) if isinstance(x, ast.Attribute)}
    mro = "__mro__" in attrs or any(call_name(c) == "mro" for c in calls_in(f.node))
    r.check(mro, f"{f.short}#along-the-mro", site(f), "__mro__" if mro else "__bases__" if "__bases__" in attrs else "?", "ancestors are scanned along the MRO",
            f"{f.short} looks at {'the direct bases' if '__bases__' in attrs else 'something else than the MRO'} only: with an unmapped class between two mapped ones the lower DAO derives from Base, "
            "re-declares the columns of the upper one and is no part of its polymorphic hierarchy")
    return r


def run(prog: Program, tier: str) -> List[RuleResult]:
    # the generator reads every field through its resolved annotation: an unresolved forward reference is no class to map
    from .c17 import wf_resolved

    return [guard(lambda: wf_table(prog)), guard(lambda: orm_dispatch(prog)), guard(lambda: orm_imports(prog)), guard(lambda: orm_names(prog)), guard(lambda: orm_determinism(prog)), guard(lambda: orm_memo(prog)), guard(lambda: wf_resolved(prog)), guard(lambda: orm_order(prog)), guard(lambda: orm_fields_once(prog)), guard(lambda: orm_id_memo(prog)), guard(lambda: orm_assoc_name(prog)), guard(lambda: orm_parent(prog))]
