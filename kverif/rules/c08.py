"""C08 - rule trees follow except-if / else-if / also-if semantics.

RULE-SURGERY  the tree exists twice - graph edges (used by _parent_, the `with` stack) and operand
              fields (_child_/left/right, used by evaluation).  The surgery routines are executed on
              an abstract heap for every initial shape (node under a unary parent, in the left or
              right slot of each selector kind, up to two levels of selectors) and must leave both
              representations in agreement with the new selector in exactly the slot of the node
              (chain) it wraps.
RULE-SELECT   each selector picks the conclusions of the branch that fired, under the guard that
              identifies that branch, and clears its selection after each emission
"""
from __future__ import annotations

import ast
import itertools
from typing import Dict, List, Optional, Tuple

from ..model import Program, AnalysisError, FuncInfo, walk_local, dotted
from ..report import RuleResult, guard
from ..astutil import src, site, calls_in, call_name, is_self_attr, is_super_call
from ..cfg import CFG
from ..surgery import Heap, Interp, Obj, _Ret, Const

EXPLANATION = (
    "Abstract heap interpretation of refinement() and alternative_or_next() (rule.py) with the _parent_ setter inlined from "
    "source: objects carry a kind, operand fields and a graph parent. For each of 43 initial shapes (current node directly under "
    "the query descriptor, or in the left/right slot of ExceptIf/Alternative/Next, one or two selector levels deep) the routine "
    "is run and five postconditions are checked: the slot of the previous parent that held the wrapped node (for alternatives: "
    "the top of the else-if/also-if chain, so that branches fire in the order written) now holds the new selector; no other "
    "operand slot changed; graph edges agree with operand fields; the selector has the wrapped node left and the new branch "
    "right; the new branch is returned. Any shape that fails names a written branch that evaluation can never reach. RULE-SELECT "
    "checks the selectors' evaluation bodies on their CFGs. The full ripple-down semantics on arbitrary trees is not decided."
)
ASSUMPTIONS = [
    "_eval_parent_ is unset while a rule tree is being written (it is assigned only during evaluation)",
    "the constructor summary of binary selectors (children get the selector as graph parent) - checked against BinaryOperator.__post_init__/_update_children_ on every run",
    "shapes deeper than two selector levels behave like the enumerated ones (the routines inspect at most the parent and grand-parent)",
]

RULE = "entity_query_language.rule"


def _shapes(prog: Program, levels: int = 2):
    qod = prog.cls("symbolic.Entity").qual
    sel = [prog.cls("conclusion_selector.ExceptIf").qual, prog.cls("conclusion_selector.Alternative").qual, prog.cls("conclusion_selector.Next").qual]
    slots = ("left", "right")
    out = [[(qod, "_child_")]]
    for k, s in itertools.product(sel, slots):
        out.append([(k, s), (qod, "_child_")])
    for (k1, s1), (k2, s2) in itertools.product(itertools.product(sel, slots), repeat=2):
        out.append([(k1, s1), (k2, s2), (qod, "_child_")])
    if levels >= 3:
        for combo in itertools.product(itertools.product(sel, slots), repeat=3):
            out.append([*combo, (qod, "_child_")])
    return out


def _build(heap: Heap, shape, and_q: str):
    """N at the bottom; returns (N, list of ancestors bottom-up)"""
    n = heap.new("N", and_q)
    child = n
    ancestors = []
    for i, (kind, slot) in enumerate(shape):
        p = heap.new(f"P{i + 1}", kind)
        if slot == "_child_":
            p.f["_child_"] = child
        else:
            p.f[slot] = child
            other = "right" if slot == "left" else "left"
            sib = heap.new(f"S{i + 1}", and_q)
            p.f[other] = sib
            sib.gparent = p
        child.gparent = p
        ancestors.append((p, slot))
        child = p
    return n, ancestors


def _label(shape):
    return " <- ".join(f"{k.split('.')[-1]}.{s}" for k, s in shape)


def _snapshot(heap: Heap):
    return {(o.name, f): v for o in heap.objs for f, v in o.f.items()}


def rule_surgery(prog: Program, levels: int = 2) -> RuleResult:
    r = RuleResult("RULE-SURGERY", "both tree representations agree after every surgery, for every initial shape", floor=10)
    mod = prog.module(RULE)
    binop = prog.cls("symbolic.BinaryOperator").qual
    and_q = prog.cls("symbolic.AND").qual
    exq = prog.cls("conclusion_selector.ExceptIf").qual
    altq = prog.cls("conclusion_selector.Alternative").qual
    nxtq = prog.cls("conclusion_selector.Next").qual
    routines = [("refinement", mod.funcs.get("refinement"), exq, False),
                ("alternative", mod.funcs.get("alternative"), altq, True),
                ("next_rule", mod.funcs.get("next_rule"), nxtq, True)]
    for rname, fn, _k, _c in routines:
        if fn is None:
            raise AnalysisError(f"RULE-SURGERY: {rname} vanished from rule.py")
    shapes = _shapes(prog, levels)
    KEYS = ("slot-updated", "other-slots-unchanged", "graph-agrees", "wraps-node-and-branch", "returns-new-branch")

    def slot_of(parent: Obj, child: Obj) -> Optional[str]:
        for f in ("left", "right", "_child_"):
            if parent.f.get(f) is child and not (f == "_child_" and prog.is_subclass(parent.kind, binop)):
                return f
        return None

    def apply(heap: Heap, rname: str, fn, want_kind: str, climbs: bool, n: Obj, tag: str, lab: str, fails: Dict[str, List[str]]):
        """run one routine with n as the current node and judge it against the structure as it is now"""
        nb = heap.new("NB" + tag, and_q)
        heap.current = n
        before = _snapshot(heap)
        known = set(id(o) for o in heap.objs)
        # expected wrapped node, from the structure (operand fields) as it is before the call
        rnode, rparent = n, n.gparent
        rslot = slot_of(rparent, rnode) if rparent is not None else None
        if climbs:
            while rparent is not None and rparent.gparent is not None and (rparent.kind in (altq, nxtq) or (rparent.kind == exq and rslot == "left")):
                rnode, rparent = rparent, rparent.gparent
                rslot = slot_of(rparent, rnode)
        it = Interp(heap, fn)
        env = {"__new_branch__": nb, "conditions": ()}
        try:
            it.block(fn.node.body, env, fn.module)
            ret = None
        except _Ret as x_:
            ret = x_.v
        xs = [o for o in heap.objs if id(o) not in known and o.name.startswith("X")]
        x = xs[-1] if xs else None
        if x is None or rparent is None or rslot is None:
            for k in KEYS:
                fails[k].append(lab)
            return None
        if rparent.f.get(rslot) is not x:
            fails["slot-updated"].append(f"{lab}: {rparent}.{rslot} holds {rparent.f.get(rslot)} (expected the new selector wrapping {rnode})")
        after = _snapshot(heap)
        for (oname, f), v in before.items():
            if (oname, f) == (rparent.name, rslot):
                continue
            o = next(o for o in heap.objs if o.name == oname)
            if f == "_child_" and prog.is_subclass(o.kind, binop):
                continue  # scratch field of binary nodes, never read for them
            if after.get((oname, f)) is not v:
                fails["other-slots-unchanged"].append(f"{lab}: {oname}.{f} changed from {v} to {after.get((oname, f))}")
        bad_graph = []
        for o in heap.objs:
            for f, c in o.f.items():
                if isinstance(c, Obj) and not (f == "_child_" and prog.is_subclass(o.kind, binop)) and c.gparent is not o:
                    bad_graph.append(f"{o}.{f}={c} but graph parent of {c} is {c.gparent}")
        if x.gparent is not rparent:
            bad_graph.append(f"graph parent of {x} is {x.gparent}, operand owner should be {rparent}")
        if bad_graph:
            fails["graph-agrees"].append(f"{lab}: " + "; ".join(bad_graph[:2]))
        if not (x.kind == want_kind and x.f.get("left") is rnode and x.f.get("right") is nb):
            fails["wraps-node-and-branch"].append(f"{lab}: {x}=({x.kind.split('.')[-1]}, left={x.f.get('left')}, right={x.f.get('right')}), expected left={rnode}")
        if ret is not nb:
            fails["returns-new-branch"].append(f"{lab}: returned {ret}")
        return x

    # (1) one routine on every shape; every shape twice: never evaluated, and as an evaluation leaves it (each node's
    #     per-evaluation parent = its parent at that time)
    for rname, fn, want_kind, climbs in routines:
        fails: Dict[str, List[str]] = {k: [] for k in KEYS}
        nshape = 0
        for shape, evaluated in [(sh, ev_) for sh in shapes for ev_ in (False, True)]:
            heap = Heap(prog)
            n, anc = _build(heap, shape, and_q)
            if evaluated:
                for o in heap.objs:
                    o.eparent = o.gparent
            nshape += 1
            apply(heap, rname, fn, want_kind, climbs, n, "", _label(shape) + (" (after an evaluation)" if evaluated else ""), fails)
        for k, lst in fails.items():
            r.check(
                not lst, f"{rname}#{k}", site(fn), f"{nshape} initial shapes",
                f"holds for all {nshape} shapes",
                f"{len(lst)} of {nshape} shapes fail, e.g. [{lst[0] if lst else ''}]" + (f" ... and [{lst[-1]}]" if len(lst) > 1 else "")
                + " - a branch the user wrote is not reachable through the operand fields that evaluation follows",
                failing=len(lst), shapes=nshape,
            )
    # (2) two routines in a row from the same current node (what two sibling with-blocks do), on trees an evaluation has touched:
    #     the second one must see the tree the first one left, not the parents the evaluation installed
    seq_shapes = _shapes(prog, 1 if levels < 3 else 2)
    for (r1, f1, k1, c1), (r2, f2, k2, c2) in itertools.product(routines, repeat=2):
        fails = {k: [] for k in KEYS}
        nshape = 0
        for shape in seq_shapes:
            heap = Heap(prog)
            n, anc = _build(heap, shape, and_q)
            for o in heap.objs:
                o.eparent = o.gparent
            first: Dict[str, List[str]] = {k: [] for k in KEYS}
            apply(heap, r1, f1, k1, c1, n, "1", _label(shape), first)
            if any(first.values()):
                continue  # reported by (1)
            nshape += 1
            apply(heap, r2, f2, k2, c2, n, "2", f"{_label(shape)} (evaluated, then {r1}, then {r2})", fails)
        bad = [x for lst in fails.values() for x in lst]
        r.check(not bad, f"{r1}-then-{r2}#second-sees-first", site(f2), f"{nshape} shapes",
                f"the tree after {r1} and {r2} from the same node is what the two branches mean, for all {nshape} evaluated shapes",
                f"{len(bad)} postconditions fail, e.g. [{bad[0] if bad else ''}] - the second routine navigates by a parent that a previous evaluation installed, "
                f"so the branch written first is cut out of the tree and never evaluated",
                failing=len(bad), shapes=nshape)
    return r


def rule_select(prog: Program) -> RuleResult:
    r = RuleResult("RULE-SELECT", "selectors pick the fired branch's conclusions under its guard and clear after each emission", floor=8)
    ex = prog.cls("conclusion_selector.ExceptIf")
    f = prog.method(ex.qual, "_evaluate__", inherited=False)
    cfg = CFG(f.node)
    # right results loop: a true right result selects right conclusions; left conclusions only when no right result was true
    calls = [(n, c) for n in cfg.nodes if n.stmt is not None and n.kind == "stmt" for c in calls_in(n.stmt) if call_name(c) == "yield_and_update_conclusion"]
    right_calls = [(n, c) for n, c in calls if "self.right._conclusion_" in src(c)]
    left_calls = [(n, c) for n, c in calls if "self.left._conclusion_" in src(c)]
    ok_r = len(right_calls) == 1 and src(right_calls[0][1].args[0]) != src(left_calls[0][1].args[0]) if left_calls and right_calls else False
    # guard of the left emission: a flag that is set exactly where the right emission happens
    flag_ok = False
    if left_calls and right_calls:
        ln, lc = left_calls[0]
        for t in cfg.nodes:
            if t.kind == "test" and isinstance(t.stmt, ast.If) and t.true_succ is not None and cfg.dominates(t.true_succ, ln.id):
                tt = t.stmt.test
                if isinstance(tt, ast.UnaryOp) and isinstance(tt.op, ast.Not) and isinstance(tt.operand, ast.Name):
                    flag = tt.operand.id
                    sets_true = [n for n in cfg.nodes if isinstance(n.stmt, ast.Assign) and src(n.stmt.targets[0]) == flag and src(n.stmt.value) == "True"]
                    sets_false = [n for n in cfg.nodes if isinstance(n.stmt, ast.Assign) and src(n.stmt.targets[0]) == flag and src(n.stmt.value) == "False"]
                    rn = right_calls[0][0]
                    flag_ok = len(sets_true) == 1 and len(sets_false) == 1 and cfg.dominates(sets_true[0].id, rn.id) and set(sets_true[0].loops) == set(rn.loops) and len(sets_false[0].loops) == len(ln.loops)
    r.check(ok_r and flag_ok, "ExceptIf._evaluate__#left-only-without-exception", site(f), "", "left conclusions are emitted exactly when no right result was true for this left binding",
            "the refinement does not override its parent exactly when it fires (left conclusions are not gated by 'no true right result')")
    # the two result loops and their loop variables (the iterable may be bound to a local first)
    single = {}
    for n in walk_local(f.node):
        if isinstance(n, ast.Assign) and len(n.targets) == 1 and isinstance(n.targets[0], ast.Name):
            single.setdefault(n.targets[0].id, []).append(n.value)

    def loop_over(role: str):
        for lp in [n for n in walk_local(f.node) if isinstance(n, ast.For) and isinstance(n.target, ast.Name)]:
            it = lp.iter
            if isinstance(it, ast.Name) and len(single.get(it.id, [])) == 1:
                it = single[it.id][0]
            if isinstance(it, ast.Call) and call_name(it) == "_evaluate__" and isinstance(it.func, ast.Attribute) and is_self_attr(it.func.value, role):
                return lp, it
        return None, None

    left_loop, left_eval = loop_over("left")
    right_loop, right_eval = loop_over("right")
    if left_loop is None or right_loop is None:
        raise AnalysisError("RULE-SELECT: ExceptIf._evaluate__ no longer loops over the results of its left and right operands")
    lv, rv = left_loop.target.id, right_loop.target.id
    # false right results are skipped
    skip = False
    for st in ast.walk(right_loop):
        if isinstance(st, ast.If):
            t = src(st.test)
            if t == f"{rv}.is_false" and any(isinstance(x, ast.Continue) for x in st.body):
                skip = True
            if t in (f"{rv}.is_true", f"not {rv}.is_false") and any(call_name(c) == "yield_and_update_conclusion" for b in st.body for c in calls_in(b)):
                skip = True
    r.check(skip, "ExceptIf._evaluate__#false-right-skipped", site(f), "", "a false refinement result does not count as an exception", "a false refinement result is treated as firing")
    # right evaluated with the left result's bindings, inside the iteration over the left results
    nested = any(x is right_loop for x in ast.walk(left_loop))
    r.check(nested and bool(right_eval.args) and src(right_eval.args[0]) == f"{lv}.bindings", "ExceptIf._evaluate__#right-under-left-binding", site(f), src(right_eval),
            "the refinement is evaluated for the binding that satisfied the parent", "the refinement is not evaluated under the parent's binding: conclusions are built from the wrong values")
    y = prog.method(ex.qual, "yield_and_update_conclusion", inherited=False)
    _emission_protocol(r, y, "ExceptIf.yield_and_update_conclusion")
    alt = prog.cls("conclusion_selector.Alternative")
    g = prog.method(alt.qual, "_evaluate__", inherited=False)
    table = _selection_table(prog, g)
    loop_var = next(n.target.id for n in walk_local(g.node) if isinstance(n, ast.For) and isinstance(n.target, ast.Name))
    # the three situations an output of the else-if evaluation can be in, and what they look like in the two ways the code may ask:
    #  - through the pass markers the else-if evaluation maintains itself (left_evaluated / right_evaluated) and the output's own flag
    #  - through the operands' node state (_is_false_)
    STATES = {
        "left fired": (["left"], {"self.left_evaluated": True, "self.right_evaluated": False, f"{loop_var}.is_true": True, f"{loop_var}.is_false": False, "self.left._is_false_": False}),
        "left false, right fired": (["right"], {"self.left_evaluated": False, "self.right_evaluated": True, f"{loop_var}.is_true": True, f"{loop_var}.is_false": False, "self.left._is_false_": True, "self.right._is_false_": False}),
        "left false, right false": ([], {"self.left_evaluated": False, "self.right_evaluated": True, f"{loop_var}.is_true": False, f"{loop_var}.is_false": True, "self.left._is_false_": True, "self.right._is_false_": True}),
    }
    bad = None
    other = set()
    for label, (want, facts) in STATES.items():
        hits = []
        for val, picked in table:
            ok = True
            for a, v in val.items():
                if a[0] == "truth" and a[1] in facts:
                    ok = ok and v == facts[a[1]]
                elif a[0] == "truth" and a[1] == "self.right._is_false_" and label == "left fired":
                    continue  # not determined in this situation: both completions must agree (checked by collecting all hits)
                else:
                    other.add(a)
            if ok:
                hits.append(picked)
        if not hits or any(h != want for h in hits):
            bad = bad or f"{label}: selects {hits or 'nothing'}, should select {want or 'nothing'}"
    r.check(bad is None and bool(table) and not other, "Alternative._evaluate__#first-true-branch", site(g), f"{len(table)} paths", "left conclusions if left fired, else right conclusions if right fired (decision table)",
            f"the alternative does not select the conclusions of the first branch that fired: {bad or ('the selection depends on ' + str(sorted(other)))}")
    # the question "which operand produced this output" must be asked of state that is maintained for every kind of operand.  The operands'
    # own `_is_false_` is written by some expression classes only (found from source); the pass markers are written by the else-if
    # evaluation itself.
    reads_node_flag = any(a[0] == "truth" and a[1] in ("self.left._is_false_", "self.right._is_false_") for val, _ in table for a in val)
    se = prog.cls("symbolic.SymbolicExpression")
    silent = []
    if reads_node_flag:
        from .c01 import concrete_classes
        from ..callgraph import self_closure

        for c_ in concrete_classes(prog):
            fs_, _ = self_closure(prog, c_.qual, prog.lookup(c_.qual, "_evaluate__"), False)
            writes = any(isinstance(t, ast.Attribute) and t.attr == "_is_false_" for f_ in fs_ for n_ in walk_local(f_.node) if isinstance(n_, (ast.Assign, ast.AugAssign))
                         for t in (n_.targets if isinstance(n_, ast.Assign) else [n_.target]))
            if not writes:
                silent.append(c_.name)
    r.check(not reads_node_flag or not silent, "Alternative._evaluate__#asks-maintained-state", site(g), "operands' _is_false_" if reads_node_flag else "pass markers / the output's flag",
            "which operand fired is read from state every operand kind maintains",
            f"the selection reads the operands' `_is_false_`, which {sorted(silent)} never write during evaluation: with a quantifier or a predicate call as the whole base condition the "
            "flag keeps its initial value, the base counts as fired for every output and its conclusion is attached to results of the alternative")
    _emission_protocol(r, g, "Alternative._evaluate__")
    r.check(any(is_super_call(c, "_evaluate__") for c in calls_in(g.node)) and prog.lookup_super(alt.qual, alt.qual, "_evaluate__").cls.name == "ElseIf",
            "Alternative._evaluate__#else-if-base", site(g), "", "results come from the else-if evaluation (right only when left is false)", "the alternative is not evaluated with else-if semantics")
    nx = prog.cls("conclusion_selector.Next")
    h = prog.method(nx.qual, "_evaluate__", inherited=False)
    table = _selection_table(prog, h)
    bad = None
    for val, picked in table:
        for le in ([val[("truth", "self.left_evaluated")]] if ("truth", "self.left_evaluated") in val else [False, True]):
            for re_ in ([val[("truth", "self.right_evaluated")]] if ("truth", "self.right_evaluated") in val else [False, True]):
                want = (["left"] if le else []) + (["right"] if re_ else [])
                if sorted(picked) != want:
                    bad = bad or f"left evaluated={le}, right evaluated={re_}: selects {picked or 'nothing'}, should select {want or 'nothing'}"
    other = sorted({a for val, _ in table for a in val if a not in (("truth", "self.left_evaluated"), ("truth", "self.right_evaluated"))})
    r.check(bad is None and bool(table) and not other, "Next._evaluate__#both-branches", site(h), f"{len(table)} paths", "conclusions of whichever side produced the result, independently (decision table)",
            f"the also-if selector does not select left and right conclusions independently: {bad or ('the selection depends on ' + str(other))}")
    _emission_protocol(r, h, "Next._evaluate__")
    _dedup_key(prog, r)
    side_flags(prog, r)
    else_operand(prog, r)
    r.check(prog.lookup_super(nx.qual, nx.qual, "_evaluate__").cls.name == "Union", "Next._evaluate__#union-base", site(h), "", "both sides are always evaluated", "also-if does not evaluate both sides")
    return r


def side_flags(prog: Program, r: RuleResult):
    """The also-if selector reads the OR node's left_evaluated / right_evaluated flags to decide whose conclusions a result carries.
    A flag raised for one side's results must be down whenever the other side emits: either the other side's emitter lowers it before
    its first emission, or the raising function lowers it on every way to its normal end."""
    orc = prog.cls("symbolic.OR")
    flags = [n for n, fi in prog.fields(orc.qual).items() if n.endswith("_evaluated")]
    if len(flags) != 2:
        raise AnalysisError(f"RULE-SELECT: expected the two side flags on OR, found {flags}")
    meths = [m for m in orc.methods.values() if m.is_generator]
    info = {}
    for m in meths:
        cfg = CFG(m.node)
        sets = {}
        for n in cfg.nodes:
            if isinstance(n.stmt, ast.Assign) and len(n.stmt.targets) == 1 and is_self_attr(n.stmt.targets[0]) and n.stmt.targets[0].attr in flags and isinstance(n.stmt.value, ast.Constant):
                sets.setdefault((n.stmt.targets[0].attr, bool(n.stmt.value.value)), []).append(n)
        yields = [n for n in cfg.nodes if n.stmt is not None and n.kind == "stmt" and any(isinstance(x, ast.Yield) for x in ast.walk(n.stmt))]
        info[m.name] = (m, cfg, sets, yields)
    for fl in flags:
        raisers = [name for name, (_m, _c, sets, _y) in info.items() if (fl, True) in sets]
        if not raisers:
            raise AnalysisError(f"RULE-SELECT: nothing raises OR.{fl}")
        for name in raisers:
            m, cfg, sets, _y = info[name]
            # (b) lowered again on every way from the raise to the normal end of the raising function
            lowered_at_end = all(cfg.path_avoiding(n.id, cfg.exit, {x.id for x in sets.get((fl, False), [])}) is None for n in sets[(fl, True)])
            # (a) every other emitter lowers it before its own emissions
            others = [o for o in info if o != name and info[o][3] and not any(k == (fl, True) for k in info[o][2])]
            lowered_by_others = bool(others) and all(
                all(any(cfg2.dominates(z.id, y.id) for z in sets2.get((fl, False), [])) for y in ys2)
                for (_m2, cfg2, sets2, ys2) in (info[o] for o in others)
            )
            r.check(lowered_at_end or lowered_by_others, f"OR.{name}#{fl}-scoped", site(m, sets[(fl, True)][0].stmt), f"self.{fl} = True",
                    "lowered again before the other side can emit" + (" (at the end of the raising function)" if lowered_at_end else " (at the start of the other emitters)"),
                    f"OR.{fl} is raised in {name} and neither lowered on every way to the end of {name} nor lowered by the other side's emitter before it emits: a result that came from the "
                    f"other operand alone is taken for one of this side too, and the also-if selector attaches this side's conclusions to it")


def else_operand(prog: Program, r: RuleResult):
    """An else-if node (alternative) evaluates its right operand for every left result flagged false. A left operand may therefore flag a
    result false only when the operand as a whole is false for those bindings. The union evaluation (next_rule) has a second pass over its
    right operand alone: a false result of that pass says nothing about the left operand."""
    from .c01 import summary_of, concrete_classes, _flag_label

    un = prog.cls("symbolic.Union")
    sel = prog.cls("conclusion_selector.ConclusionSelector")
    # rule trees only: the selectors that run the union evaluation (plain or_ between conditions over different variables is outside C08)
    for c in [x for x in concrete_classes(prog) if prog.is_subclass(x.qual, un.qual) and prog.is_subclass(x.qual, sel.qual)]:
        s = summary_of(prog, prog.cls("symbolic.Union"))
        left = {st.id for st in s.sites if "self.left" in st.recv_roles}
        right = {st.id for st in s.sites if "self.right" in st.recv_roles}
        bad = None
        for e in s.emissions:
            fl = e.flag.flag if e.flag is not None else None
            if fl == ("const", False):
                continue
            # an emission guarded by the truth of the emitted result itself never carries a false flag
            if any((str(g[2]).endswith(".is_true") and g[1] is True) or (str(g[2]).endswith(".is_false") and g[1] is False) for g in e.guards):
                continue
            if not (e.bindings.must & left and e.bindings.must & right):
                bad = bad or (e, fl)
        r.check(bad is None, f"{c.name}#false-means-both-false", c.loc, f"emissions of the union evaluation that {c.name} runs",
                "a result is flagged false only with bindings under which both operands were evaluated",
                f"{c.name} (union evaluation, {bad[0].func if bad else ''}) emits a result flagged false from {_flag_label(bad[1], s) if bad else ''} alone: an enclosing alternative takes it for "
                f"'no earlier branch fired' and fires although the base rule fired for the same binding")


def _selection_table(prog: Program, f):
    """decision table of the result loop of a selector: for every consistent valuation of the tests in the loop body, which operands'
    conclusions are handed to update_conclusion (in order)"""
    from ..dtable import explore_block, Sym

    loops = [n for n in walk_local(f.node) if isinstance(n, ast.For) and isinstance(n.target, ast.Name)]
    if len(loops) != 1:
        raise AnalysisError(f"RULE-SELECT: {f.short} no longer has a single loop over its base results")
    lp = loops[0]
    env = {p: Sym(p) for p in f.params}
    env[lp.target.id] = Sym(lp.target.id)
    out = []
    for val, outcome, calls in explore_block(prog, f, lp.body, env, inline=lambda q: False):
        picked = []
        for c in calls:
            if c.fn.endswith("update_conclusion") and len(c.args) == 2:
                a = repr(c.args[1])
                picked.append("left" if a == "self.left._conclusion_" else ("right" if a == "self.right._conclusion_" else a))
        out.append((val, picked))
    return out


def _dedup_key(prog: Program, r: RuleResult):
    """the record of produced conclusions is keyed by the bindings *and* by which conclusions were produced"""
    sel = prog.cls("conclusion_selector.ConclusionSelector")
    f = prog.method(sel.qual, "update_conclusion", inherited=False)
    cparam = f.params[2]
    keyvars = set()
    for c in calls_in(f.node):
        if call_name(c) in ("check", "add") and "concluded_before" in src(c.func) and c.args and isinstance(c.args[0], ast.Name):
            keyvars.add(c.args[0].id)
    loopvars = {n.target.id for n in walk_local(f.node) if isinstance(n, (ast.For, ast.comprehension)) and isinstance(n.target, ast.Name) and src(n.iter) == cparam}
    has_identity = False
    has_bindings = False
    for n in walk_local(f.node):
        vals = []
        if isinstance(n, ast.Assign):
            for t in n.targets:
                if isinstance(t, ast.Subscript) and isinstance(t.value, ast.Name) and t.value.id in keyvars:
                    vals.append(n.value)
                if isinstance(t, ast.Name) and t.id in keyvars:
                    vals.append(n.value)
        for v in vals:
            t = src(v)
            if "bindings" in t:
                has_bindings = True
            for x in ast.walk(v):
                if isinstance(x, ast.Attribute) and x.attr == "_id_" and isinstance(x.value, ast.Name) and x.value.id in loopvars:
                    has_identity = True
                if isinstance(x, ast.Call) and isinstance(x.func, ast.Name) and x.func.id == "id" and x.args and isinstance(x.args[0], ast.Name) and x.args[0].id in loopvars | {cparam}:
                    has_identity = True
    r.check(bool(keyvars) and has_bindings and has_identity, "ConclusionSelector.update_conclusion#key-includes-conclusions", site(f), "",
            "the key records the bindings and which conclusions they produced",
            "the record of produced conclusions is keyed by the bindings alone: a next_rule (also-if) branch over the same variables as the branch before it looks already "
            "concluded and never fires")


def _emission_protocol(r: RuleResult, f: FuncInfo, label: str):
    """update_conclusion ... yield ... self._conclusion_.clear() in this order around each emission"""
    cfg = CFG(f.node)
    ys = [n for n in cfg.nodes if n.kind == "stmt" and isinstance(n.stmt, ast.Expr) and isinstance(n.stmt.value, ast.Yield)]
    clears = [n for n in cfg.nodes if n.kind == "stmt" and any(call_name(c) == "clear" and "_conclusion_" in src(c.func) for c in calls_in(n.stmt))]
    ok = bool(ys) and all(any(cfg.postdominates(c.id, y.id) and set(c.loops) == set(y.loops) for c in clears) for y in ys)
    r.check(ok, f"{label}#clear-after-emission", site(f), "", "the selection is cleared after every emission (no conclusion leaks into the next result)",
            "the selected conclusions are not cleared after an emission: they are applied to later results as well")


def _hv_truth(prog):
    from .hvtruth import hv_truth

    return hv_truth(prog)


def _ep_operand(prog):
    # a branch condition may be one bare expression (refinement(x.fragile), a base HasType(...) that is refined): it is judged by the truth of
    # its value because it stands below a selector - every logical operator, the rule selectors included, is a condition position
    from .c01 import ep_operand

    return ep_operand(prog)


def concl_key(prog: Program) -> RuleResult:
    """A selector remembers for which bindings it produced which conclusions, so that the same conclusion is not applied twice for one
    binding.  'The same binding' has to mean the values of everything the conclusion is made from: an expression below it that picks an
    element (flatten(box.parts), an index, a call) has a value of its own in the bindings.  A key made from the variables at the leaves only
    cannot tell two elements of one box apart: the second one's branch is dropped."""
    r = RuleResult("CONCL-KEY", "the memory of produced conclusions is keyed by every bound expression below the conclusion", floor=1)
    cs = prog.cls("conclusion_selector.ConclusionSelector")
    f = cs.methods.get("update_conclusion")
    if f is None:
        raise AnalysisError("CONCL-KEY: ConclusionSelector.update_conclusion vanished")
    # the set of ids the bindings are projected on: <bindings>.items() ... if k in S
    sets = []
    for x in walk_local(f.node):
        if isinstance(x, ast.comprehension) and src(x.iter).endswith(".items()"):
            for t in x.ifs:
                for c in [y for y in ast.walk(t) if isinstance(y, ast.Compare) and isinstance(y.ops[0], ast.In) and isinstance(y.comparators[0], ast.Name)]:
                    sets.append(c.comparators[0].id)
    if not sets:
        raise AnalysisError("CONCL-KEY: update_conclusion no longer projects the bindings on a set of ids")
    S = sets[0]
    srcs = []
    for x in walk_local(f.node):
        tg = x.targets[0] if isinstance(x, ast.Assign) and len(x.targets) == 1 else x.target if isinstance(x, (ast.AnnAssign, ast.AugAssign)) else None
        if isinstance(tg, ast.Name) and tg.id == S and getattr(x, "value", None) is not None:
            srcs.append(x.value)
        if isinstance(x, ast.Call) and isinstance(x.func, ast.Attribute) and x.func.attr in ("update", "add") and isinstance(x.func.value, ast.Name) and x.func.value.id == S:
            srcs += list(x.args)
    # one level of locals feeding the set
    names = {y.id for e in srcs for y in ast.walk(e) if isinstance(y, ast.Name)}
    for x in walk_local(f.node):
        if isinstance(x, ast.Assign) and len(x.targets) == 1 and isinstance(x.targets[0], ast.Name) and x.targets[0].id in names:
            srcs.append(x.value)
    attrs = {y.attr for e in srcs for y in ast.walk(e) if isinstance(y, ast.Attribute)}
    whole = attrs & {"_descendants_", "_all_nodes_"}
    leaves = attrs & {"_unique_variables_", "_all_variable_instances_"}
    r.check(bool(whole) and not (leaves and not whole), f"{f.short}#keyed-by-everything-below", site(f), f"ids from {sorted(whole | leaves)}", "the ids are those of every expression below the conclusions",
            f"the key is built from {sorted(leaves) or 'something else than the expressions below the conclusion'} - the variables at the leaves: two elements that flatten() picks from one object "
            "give the same key, the second element's conclusion is dropped and the first one's is applied again")
    return r


def rule_context(prog: Program) -> RuleResult:
    """`with query:` opens the place where the base conclusions are written: the conditions of the query as they are *when the block is
    entered*.  Branches written inside the block re-hang selectors above those conditions; a conclusion written after a branch still belongs
    to the base.  So the node is resolved once, in __enter__, and the stack hands back what was pushed - resolved on every lookup instead,
    'the conditions root' is the selector by then, whose conclusion set is transient: the conclusion is silently lost."""
    r = RuleResult("RULE-CONTEXT", "the node a with-block writes to is fixed when the block is entered", floor=2)
    se = prog.cls("symbolic.SymbolicExpression")
    en = prog.lookup(se.qual, "__enter__")
    cp = prog.lookup(se.qual, "_current_parent_")
    if en is None or cp is None:
        raise AnalysisError("RULE-CONTEXT: __enter__ / _current_parent_ vanished")
    pushes = [c for c in calls_in(en.node) if call_name(c) == "append" and "_symbolic_expression_stack_" in src(c.func)]
    resolved_at_entry = any("_conditions_root_" in src(x) for x in walk_local(en.node))
    pushed_self = any(c.args and isinstance(c.args[0], ast.Name) and c.args[0].id == en.params[0] for c in pushes)
    r.check(bool(pushes) and resolved_at_entry and not pushed_self, f"{en.short}#conditions-resolved-at-entry", site(en), src(pushes[0])[:60] if pushes else "", "the conditions of the query are looked up in __enter__ and pushed",
            "the block pushes the query itself: which node stands for 'its conditions' is decided later, after branches written in the block have re-hung the tree")
    late = [x for x in walk_local(cp.node) if isinstance(x, ast.Attribute) and x.attr in ("_conditions_root_", "_root_", "_parent_")]
    r.check(not late, f"{cp.short}#hands-back-what-was-pushed", site(cp, late[0]) if late else site(cp), src(late[0])[:60] if late else "stack top", "the current parent is the top of the stack as it was pushed",
            f"`{src(late[0]) if late else ''}` is evaluated at every lookup: after a top-level refinement / alternative it names the selector, and a base conclusion written below the branch is attached to "
            "the selector's transient conclusion set - it never fires")
    return r


def _cond_fold(prog):
    from .c01 import cond_fold

    return cond_fold(prog)


def _shared_default(prog):
    from .shareddefault import shared_default

    return shared_default(prog, ["entity_query_language.conclusion_selector", "entity_query_language.rule", "entity_query_language.conclusion"], 10)


def run(prog: Program, tier: str) -> List[RuleResult]:
    # thorough: three selector levels (259 initial shapes per routine) instead of two (43)
    from .c03 import carry1, carry_reset_reach

    # what a selector remembers about conclusions it already produced decides which branch fires: it must be reset for every concrete selector (shared with C03)
    return [guard(lambda: rule_surgery(prog, 3 if tier == "thorough" else 2)), guard(lambda: rule_select(prog)), guard(lambda: carry1(prog)),
            # ... and the reset has to reach the selectors of branches written after an evaluation
            guard(lambda: carry_reset_reach(prog)),
            # the selectors' memories are separate objects (true / false results, one selector and the next)
            guard(lambda: _shared_default(prog)),
            # 'constructed from the values of the binding': an argument whose value is falsy is an argument
            guard(lambda: _hv_truth(prog)),
            # refinement(...) / alternative(...) / next_rule(...) fold the conditions of a branch like and_(...) does: none is dropped for being False
            guard(lambda: _cond_fold(prog)),
            # the surgery finds the operand that held the old node by identity
            guard(lambda: expr_identity(prog)), guard(lambda: _ep_operand(prog)), guard(lambda: concl_key(prog)), guard(lambda: rule_context(prog))]


NODE_FIELDS = ("left", "right", "_parent_", "_child_", "variable", "condition", "_var_", "_conditions_root_", "_root_")


def expr_identity(prog: Program) -> RuleResult:
    """Variables, attributes and calls overload `==` / `!=` to *build a comparison* - an object, always true.  Code that moves nodes around in
    the tree (which operand held the old node? is this the node we came from?) therefore asks with `is`; with `==` the answer is "yes" for
    every variable-like node and the wrong operand is overwritten, a written branch is lost, a stray comparator is hung into the graph."""
    r = RuleResult("EXPR-IDENTITY", "expression nodes are told apart by identity, never by the overloaded ==", floor=4)
    base = prog.cls("symbolic.SymbolicExpression")
    node_classes = {c.name for c in prog.subclasses(base.qual, strict=False)} | {base.name}
    overloaders = sorted(c.name for c in prog.subclasses(base.qual, strict=False) if "__eq__" in c.methods)
    if not overloaders:
        r.note("no expression class overloads __eq__")
    r.note(f"__eq__ builds a comparison in: {overloaders}")

    def node_annot(a) -> bool:
        if a is None:
            return False
        t = src(a).replace('"', "").replace("'", "")
        head = t.split("[", 1)[0].strip()
        if head in ("Optional", "Union", "TypingUnion") and "[" in t:
            return any(x.strip().split("[", 1)[0] in node_classes for x in t[t.index("[") + 1:].rstrip("]").split(","))
        return head in node_classes

    n = 0
    for f in sorted(prog.functions.values(), key=lambda x: x.qual):
        if not f.module.name.endswith(("entity_query_language.rule", "entity_query_language.symbolic", "entity_query_language.conclusion_selector",
                                       "entity_query_language.entity", "entity_query_language.conclusion")):
            continue
        if f.name in ("__eq__", "__ne__"):
            continue
        a = f.node.args
        nodes = {p.arg for p in a.posonlyargs + a.args + a.kwonlyargs if node_annot(p.annotation)}
        if f.cls is not None and prog.is_subclass(f.cls.qual, base.qual) and a.args and a.args[0].arg == "self" and not any(
                isinstance(d, ast.Name) and d.id in ("staticmethod", "classmethod") for d in f.node.decorator_list):
            nodes.add("self")

        def is_node(e) -> bool:
            if isinstance(e, ast.Name):
                return e.id in nodes
            if isinstance(e, ast.Attribute):
                return e.attr in NODE_FIELDS and is_node(e.value)
            return False

        for _ in range(2):
            for x in walk_local(f.node):
                if isinstance(x, ast.Assign) and len(x.targets) == 1 and isinstance(x.targets[0], ast.Name) and is_node(x.value):
                    nodes.add(x.targets[0].id)
        cmps = [x for x in walk_local(f.node) if isinstance(x, ast.Compare) and len(x.ops) == 1 and isinstance(x.ops[0], (ast.Eq, ast.NotEq, ast.In, ast.NotIn))]
        hits = []
        for c in cmps:
            l, rr = c.left, c.comparators[0]
            if isinstance(c.ops[0], (ast.Eq, ast.NotEq)):
                if (is_node(l) and not isinstance(rr, ast.Constant)) or (is_node(rr) and not isinstance(l, ast.Constant)):
                    hits.append(c)
            elif is_node(l) and isinstance(rr, (ast.List, ast.Tuple)):
                hits.append(c)  # membership in a sequence compares with == after identity
        if not nodes:
            continue
        ids = [x for x in walk_local(f.node) if isinstance(x, ast.Compare) and len(x.ops) == 1 and isinstance(x.ops[0], (ast.Is, ast.IsNot)) and (is_node(x.left) or is_node(x.comparators[0]))
               and not isinstance(x.comparators[0], ast.Constant)]
        if not hits and not ids:
            continue
        n += 1
        r.check(not hits, f"{f.short}#nodes-compared-by-identity", site(f, hits[0]) if hits else site(f), src(hits[0])[:80] if hits else f"{len(ids)} identity comparison(s) between nodes",
                "nodes are compared with `is`",
                f"`{src(hits[0]) if hits else ''}` compares expression nodes with the overloaded operator: for a variable, an attribute or a call it builds a comparison object "
                f"(always true, and hung into the expression graph) instead of answering whether the two are the same node")
    if n < 1:
        raise AnalysisError("EXPR-IDENTITY: no function compares expression nodes")
    return r
