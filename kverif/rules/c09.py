"""C09 - result quantifiers enforce exactly the stated solution count.

QC-TABLE  decision table of every constraint's assert_satisfaction over orderings x done
QC-CTOR   constructor rejection tables
QC-PATH   count / assert / yield ordering in ResultQuantifier._evaluate__
QC-MAP    the() carries Exactly(1) and maps count errors to No/MultipleSolutionFound
"""
from __future__ import annotations

import ast
import itertools
from typing import Dict, List

from ..model import Program, AnalysisError, dotted, walk_local
from ..report import RuleResult, guard
from ..dtable import explore, Sym, int_models
from ..cfg import CFG
from ..astutil import src, site, calls_in, call_name, is_self_attr, is_super_call, kwarg, arg_or_kw, const_value

EXPLANATION = (
    "Solution counts are touched only through comparisons, so the finite domain of orderings "
    "{n<v, n=v, n>v} x {done, not done} is exact for every integer. The checker extracts the decision "
    "table of each constraint's assert_satisfaction and of the constructors by abstract evaluation "
    "of their AST (no execution) and compares every cell with the table the property states; it then "
    "checks on the CFG of ResultQuantifier._evaluate__ that each child result is counted once, that the "
    "incremental assertion lies between the increment and the yield on every path, that the final "
    "assertion post-dominates normal loop exit, and that the() carries Exactly(1) and maps the two count "
    "errors to NoSolutionFound / MultipleSolutionFound."
)
ASSUMPTIONS = [
    "each result of the query descriptor is one solution (that is property C02)",
    "dataclass-generated __init__ calls __post_init__ (checked: the classes are @dataclass without own __init__)",
    "solution counts and bounds are integers",
]
EXHAUSTIVE = True

RQC = "result_quantification_constraint.ResultQuantificationConstraint"


def _sign(x, y):
    return (x > y) - (x < y)


def _spec(cls_name: str, m: Dict[str, int], done: bool):
    """The property statement as a table. Returns None | 'Less' | 'Greater'."""
    n = m["n"]
    if cls_name == "Exactly":
        v = m["self.value"]
        if n > v:
            return "Greater"
        if done and n < v:
            return "Less"
        return None
    if cls_name == "AtLeast":
        return "Less" if done and n < m["self.value"] else None
    if cls_name == "AtMost":
        return "Greater" if n > m["self.value"] else None
    if cls_name == "Range":
        lo, hi = m["self.at_least.value"], m["self.at_most.value"]
        if n > hi:
            return "Greater"
        if done and n < lo:
            return "Less"
        return None
    raise KeyError(cls_name)


def _classify_exc(prog: Program, name: str):
    try:
        c = prog.cls("failures." + name)
    except AnalysisError:
        return name
    less = prog.cls("failures.LessThanExpectedNumberOfSolutions").qual
    greater = prog.cls("failures.GreaterThanExpectedNumberOfSolutions").qual
    if prog.is_subclass(c.qual, less):
        return "Less"
    if prog.is_subclass(c.qual, greater):
        return "Greater"
    return name


def _matches(val, m, done):
    for a, v in val.items():
        if a[0] == "ord":
            x = m[a[1]] if a[1] in m else int(a[1])
            y = m[a[2]] if a[2] in m else int(a[2])
            if _sign(x, y) != v:
                return False
        elif a[0] == "truth":
            if a[1] == "done":
                if v != done:
                    return False
            elif a[1] in m:
                # the truth of a bound is whether it is non-zero (that a bound of 0 is legal is exactly what the tables are about)
                if v != (m[a[1]] != 0):
                    return False
            elif a[1].startswith("self.") and (a[1] + ".value") in m:
                # a constraint object that is given is there (OPT-TRUTH decides that its class has no truth value of its own)
                if v is not True:
                    return False
            else:
                return None
        elif a[0] == "is" and "None" in a[1:] and any(t != "None" and t.startswith("self.") and ((t + ".value") in m or t in m) for t in a[1:]):
            if v is not False:
                return False
        else:
            return None
    return True


def qc_table(prog: Program, hi: int = 4) -> RuleResult:
    r = RuleResult("QC-TABLE", "assert_satisfaction decision table equals the stated table in every ordering cell", floor=20)
    base = prog.cls(RQC)
    specs = {"Exactly", "AtLeast", "AtMost", "Range"}
    seen = set()
    for c in prog.subclasses(base.qual, strict=True):
        f = c.methods.get("assert_satisfaction") or prog.lookup(c.qual, "assert_satisfaction")
        if f is None or f.is_abstract:
            continue
        if c.name not in specs:
            r.note(f"constraint class {c.name} has no stated table; not decided")
            continue
        seen.add(c.name)
        ftypes = {}
        terms = ["n", "self.value"]
        if c.name == "Range":
            terms = ["n", "self.at_least.value", "self.at_most.value"]
        paths = explore(
            prog,
            f,
            [Sym("self"), Sym("n"), Sym("quantifier"), Sym("done")],
            self_type=c.qual,
        )
        # cells: enumerate small integer models, group by orderings
        cells = {}
        rng = range(0, hi)
        for combo in itertools.product(rng, repeat=len(terms)):
            m = dict(zip(terms, combo))
            if c.name == "Range" and m["self.at_least.value"] > m["self.at_most.value"]:
                continue
            for done in (False, True):
                key = tuple(_sign(m["n"], m[t]) for t in terms[1:]) + (done,)
                cells.setdefault(key, []).append((m, done))
        for key, models in sorted(cells.items()):
            label = ",".join(
                f"n{'<=>'[s + 1]}{t.replace('self.', '')}" for s, t in zip(key[:-1], terms[1:])
            ) + (",done" if key[-1] else ",running")
            outcomes = set()
            expected = set()
            for m, done in models:
                hit = []
                for val, outcome, calls in paths:
                    mt = _matches(val, m, done)
                    if mt is None:
                        raise AnalysisError(
                            f"QC-TABLE: {c.name}.assert_satisfaction consults an atom outside the vocabulary: {val}"
                        )
                    if mt:
                        hit.append(outcome)
                if len(hit) != 1:
                    raise AnalysisError(f"QC-TABLE: {len(hit)} paths match model {m} in {c.name}")
                o = hit[0]
                if o[0] == "raise":
                    outcomes.add(_classify_exc(prog, o[1]))
                else:
                    outcomes.add(None)
                expected.add(_spec(c.name, m, done))
            r.check(
                outcomes == expected and len(outcomes) == 1,
                f"{c.name}.assert_satisfaction#{label}",
                site(f),
                f"{c.name}.assert_satisfaction",
                detail_ok=f"cell {label}: outcome {sorted(map(str, outcomes))} as stated",
                detail_fail=f"cell {label}: code gives {sorted(map(str, outcomes))}, the property states {sorted(map(str, expected))}",
                cell=label,
                models=len(models),
            )
    missing = specs - seen
    if missing:
        raise AnalysisError(f"QC-TABLE: constraint classes vanished: {sorted(missing)}")
    return r


def qc_ctor(prog: Program) -> RuleResult:
    r = RuleResult("QC-CTOR", "constructors reject negative / inconsistent bounds and accept the rest", floor=9)
    for name in ("Exactly", "AtLeast", "AtMost"):
        c = prog.cls("result_quantification_constraint." + name)
        if not c.is_dataclass or "__init__" in c.methods:
            r.fail(f"{name}#dataclass-init", c.loc, name, "class is not a plain @dataclass: __post_init__ may not run")
            continue
        f = prog.lookup(c.qual, "__post_init__")
        if f is None:
            for lab in ("value<0", "value=0", "value>0"):
                r.check(lab != "value<0", f"{name}.__post_init__#{lab}", c.loc, name, "accepted", "no __post_init__: negative bound is accepted")
            continue
        paths = explore(prog, f, [Sym("self")], self_type=c.qual)
        for sgn, lab in ((-1, "value<0"), (0, "value=0"), (1, "value>0")):
            outs = set()
            for v in {-1: (-3, -2, -1), 0: (0,), 1: (1, 2, 3)}[sgn]:
                hit = []
                for val, outcome, _ in paths:
                    mt = _matches(val, {"self.value": v}, False)
                    if mt is None:
                        raise AnalysisError(f"QC-CTOR: atom outside vocabulary in {f.qual}: {val}")
                    if mt:
                        hit.append(outcome)
                if len(hit) != 1:
                    raise AnalysisError(f"QC-CTOR: {len(hit)} paths match value={v} in {f.qual}")
                outs.add(hit[0][1] if hit[0][0] == "raise" else None)
            exp = {"NegativeQuantificationError"} if sgn < 0 else {None}
            if sgn < 0 and outs and None not in outs:
                # accept subclasses of the documented error
                neg = prog.cls("failures.NegativeQuantificationError").qual
                outs = {
                    "NegativeQuantificationError"
                    if (o and prog.has_cls("failures." + o) and prog.is_subclass(prog.cls("failures." + o).qual, neg))
                    else o
                    for o in outs
                }
            r.check(
                outs == exp,
                f"{name}.__post_init__#{lab}",
                site(f),
                f"{name}(value)",
                f"{lab}: {sorted(map(str, outs))}",
                f"{lab}: constructor gives {sorted(map(str, outs))}, stated {sorted(map(str, exp))}",
            )
    c = prog.cls("result_quantification_constraint.Range")
    f = prog.lookup(c.qual, "__post_init__")
    if not c.is_dataclass or "__init__" in c.methods or f is None:
        r.fail("Range#dataclass-init", c.loc, "Range", "Range has no __post_init__ run by a dataclass __init__")
    else:
        paths = explore(prog, f, [Sym("self")], self_type=c.qual)
        for sgn, lab in ((-1, "at_most<at_least"), (0, "at_most=at_least"), (1, "at_most>at_least")):
            outs = set()
            for lo, hi in [(a, b) for a in range(0, 4) for b in range(0, 4) if _sign(b, a) == sgn]:
                hit = []
                for val, outcome, _ in paths:
                    mt = _matches(val, {"self.at_least.value": lo, "self.at_most.value": hi}, False)
                    if mt is None:
                        raise AnalysisError(f"QC-CTOR: atom outside vocabulary in {f.qual}: {val}")
                    if mt:
                        hit.append(outcome)
                if len(hit) != 1:
                    raise AnalysisError(f"QC-CTOR: {len(hit)} paths match ({lo},{hi}) in {f.qual}")
                outs.add(hit[0][1] if hit[0][0] == "raise" else None)
            exp = {"QuantificationConsistencyError"} if sgn < 0 else {None}
            r.check(
                outs == exp,
                f"Range.__post_init__#{lab}",
                site(f),
                "Range(at_least, at_most)",
                f"{lab}: {sorted(map(str, outs))}",
                f"{lab}: constructor gives {sorted(map(str, outs))}, stated {sorted(map(str, exp))}",
            )
    return r


def _assert_helper_calls(prog: Program, rq) -> Dict[str, tuple]:
    """methods of ResultQuantifier that forward (count, done) to constraint.assert_satisfaction.
    returns name -> (count_param_index, done_param_name)"""
    out = {}
    for cq in prog.mro(rq.qual):
        ci = prog.classes.get(cq)
        if ci is None:
            continue
        for name, f in ci.methods.items():
            if name in out:
                continue
            for c in calls_in(f.node):
                if call_name(c) == "assert_satisfaction" and isinstance(c.func, ast.Attribute):
                    cnt = arg_or_kw(c, 0, "number_of_solutions")
                    dn = arg_or_kw(c, 2, "done")
                    params = f.params
                    if isinstance(cnt, ast.Name) and isinstance(dn, ast.Name) and cnt.id in params and dn.id in params:
                        out[name] = (params.index(cnt.id) - 1, dn.id, params.index(dn.id) - 1, f, c)
    return out


def qc_path(prog: Program) -> RuleResult:
    r = RuleResult("QC-PATH", "one increment per child result; assertion between increment and yield; final assertion after the loop", floor=5)
    rq = prog.cls("symbolic.ResultQuantifier")
    f = prog.method(rq.qual, "_evaluate__")
    helpers = _assert_helper_calls(prog, rq)
    if not helpers:
        raise AnalysisError("QC-PATH: no method of ResultQuantifier forwards to assert_satisfaction")
    # helper guard: the only condition under which the assertion is skipped is 'no constraint'
    for hname, (_, _, _, hf, hc) in helpers.items():
        paths = explore(prog, hf, [Sym("self"), Sym("result_count"), Sym("done")], self_type=None)
        atoms = {a for val, _, _ in paths for a in val}
        target = src(hc.func.value)

        def is_set(val):
            # the constraint is there: its truth test holds / it is not None
            return all((v if a[0] == "truth" else (not v)) for a, v in val.items())

        called_when_set = all(
            any(app.fn.endswith(".assert_satisfaction") for app in calls)
            for val, out, calls in paths
            if is_set(val)
        )
        only_constraint_guard = all((a[0] == "truth" and a[1] == target) or (a[0] == "is" and set(a[1:]) == {"None", target}) for a in atoms)
        r.check(
            called_when_set and only_constraint_guard,
            f"ResultQuantifier.{hname}#guard",
            site(hf),
            src(hc),
            "assertion is skipped only when no constraint is set",
            f"assertion helper consults {sorted(map(str, atoms))}; it must be skipped only when the constraint is unset",
        )
    cfg = CFG(f.node)
    # the loop over the child's results
    loops = []
    for n in cfg.nodes:
        if n.kind == "for":
            it = n.stmt.iter
            names = {x.id for x in ast.walk(it) if isinstance(x, ast.Name)}
            txt = src(it)
            derives = "_evaluate__" in txt
            if not derives:
                for s in walk_local(f.node):
                    if isinstance(s, ast.Assign) and any(isinstance(t, ast.Name) and t.id in names for t in s.targets):
                        if "_evaluate__" in src(s.value) and "_child_" in src(s.value):
                            derives = True
            if derives:
                loops.append(n)
    if len(loops) != 1:
        raise AnalysisError(f"QC-PATH: expected one loop over the child's results in {f.qual}, found {len(loops)}")
    loop = loops[0]
    body_nodes = [n for n in cfg.nodes if loop.id in n.loops]
    incs = [n for n in body_nodes if isinstance(n.stmt, ast.AugAssign) and isinstance(n.stmt.op, ast.Add)
            and isinstance(n.stmt.target, ast.Name) and const_value(n.stmt.value) == 1]
    yields = [n for n in body_nodes if n.kind == "stmt" and any(isinstance(x, (ast.Yield, ast.YieldFrom)) for x in walk_local(n.stmt) ) or
              (n.kind == "stmt" and isinstance(n.stmt, ast.Expr) and isinstance(n.stmt.value, (ast.Yield, ast.YieldFrom)))]
    yields = [n for n in yields if n.kind == "stmt"]
    key = "ResultQuantifier._evaluate__"
    if not r.check(len(incs) == 1 and len(incs[0].loops) == 1, f"{key}#increment", site(f, loop.stmt), src(loop.stmt.iter),
                   "exactly one `+= 1` per iteration", f"{len(incs)} increment statements in the result loop (need exactly one, not nested)"):
        return r
    inc = incs[0]
    counter = inc.stmt.target.id
    # counter initialised to 0 before the loop
    inits = [n for n in cfg.nodes if isinstance(n.stmt, ast.Assign) and any(isinstance(t, ast.Name) and t.id == counter for t in n.stmt.targets)]
    r.check(
        len(inits) == 1 and const_value(inits[0].stmt.value) == 0 and cfg.dominates(inits[0].id, loop.id) and not inits[0].loops,
        f"{key}#counter-init", site(f, inits[0].stmt if inits else loop.stmt), counter,
        "counter starts at 0 once per evaluation", "counter is not initialised to 0 exactly once before the loop",
    )
    other_writes = [n for n in cfg.nodes if n is not inc and n not in inits and isinstance(n.stmt, (ast.AugAssign, ast.Assign))
                    and any(isinstance(x, ast.Name) and x.id == counter and isinstance(x.ctx, ast.Store) for x in ast.walk(n.stmt))]
    r.check(not other_writes, f"{key}#counter-writes", site(f, other_writes[0].stmt if other_writes else inc.stmt), counter,
            "no other write to the counter", "the counter is written elsewhere")

    def assertion_nodes(done_value):
        out = []
        for n in cfg.nodes:
            if n.stmt is None or n.kind != "stmt":
                continue
            for c in calls_in(n.stmt):
                nm = call_name(c)
                if nm in helpers and isinstance(c.func, ast.Attribute) and is_self_attr(c.func):
                    ci, dname, di, _, _ = helpers[nm]
                    cnt = arg_or_kw(c, ci, helpers[nm][3].params[ci + 1])
                    dn = arg_or_kw(c, di, dname)
                elif nm == "assert_satisfaction":
                    cnt = arg_or_kw(c, 0, "number_of_solutions")
                    dn = arg_or_kw(c, 2, "done")
                else:
                    continue
                if isinstance(cnt, ast.Name) and cnt.id == counter and const_value(dn, "?") is done_value:
                    out.append(n)
        return out

    running = [n for n in assertion_nodes(False) if loop.id in n.loops]
    final = [n for n in assertion_nodes(True) if not n.loops]
    r.check(bool(yields), f"{key}#yield", site(f, loop.stmt), "", "loop yields results", "the result loop yields nothing")
    ok_between = bool(running) and all(
        cfg.dominates(inc.id, y.id) and any(cfg.dominates(inc.id, a.id) and cfg.dominates(a.id, y.id) for a in running)
        for y in yields
    )
    r.check(
        ok_between, f"{key}#assert-before-yield", site(f, (running[0].stmt if running else inc.stmt)),
        src(running[0].stmt) if running else "",
        "every yield of the loop is dominated by increment -> assertion(done=False)",
        "a result can be yielded without the incremental count assertion (upper bound may be exceeded by emitted results)",
    )
    ok_final = bool(final) and cfg.must_pass_through(loop.id, {a.id for a in final} | {n.id for n in body_nodes if False}, cfg.exit)
    # paths that leave through the loop body (return inside loop) are covered by must_pass_through too
    r.check(
        ok_final, f"{key}#assert-done", site(f, (final[0].stmt if final else loop.stmt)), src(final[0].stmt) if final else "",
        "assertion(done=True) lies on every path from the loop to normal exit",
        "normal loop exit can reach the end of the evaluation without the final count assertion",
    )
    return r


def qc_map(prog: Program) -> RuleResult:
    r = RuleResult("QC-MAP", "the() carries Exactly(1), not user-settable, and maps Less/Greater to No/MultipleSolutionFound", floor=6)
    the = prog.cls("symbolic.The")
    rq = prog.cls("symbolic.ResultQuantifier")
    # constraint field of ResultQuantifier
    cfield = None
    for n, fi in prog.fields(rq.qual).items():
        if "ResultQuantificationConstraint" in fi.ann_text:
            cfield = n
    if cfield is None:
        raise AnalysisError("QC-MAP: ResultQuantifier has no constraint field")
    fld = prog.lookup_attr(the.qual, cfield)
    fac = fld.field_kw("default_factory") if fld and fld.owner == the.qual else None
    ok = False
    txt = src(fac)
    if isinstance(fac, ast.Lambda) and isinstance(fac.body, ast.Call):
        callee = the.module.resolve(fac.body.func)
        ok = callee == prog.cls("result_quantification_constraint.Exactly").qual and len(fac.body.args) == 1 and const_value(fac.body.args[0]) == 1
    r.check(ok, "The#constraint-default", the.loc, txt, "default is Exactly(1)", f"The's constraint default is {txt or 'inherited/None'}, not Exactly(1)")
    r.check(fld is not None and fld.owner == the.qual and not fld.in_init, "The#constraint-not-settable", the.loc, txt,
            "init=False", "The's constraint can be overridden through the constructor")
    # builder does not override it
    bf = prog.func("quantify_entity.the")
    qf = prog.func("quantify_entity._quantify_entity")
    calls = [c for c in calls_in(bf.node) if call_name(c) == qf.name]
    r.check(len(calls) == 1 and not calls[0].keywords and len(calls[0].args) == 2 and src(calls[0].args[0]) == "The",
            "the#builder", site(bf), src(calls[0]) if calls else "", "the() builds The without constraint override",
            "the() does not build a plain The(entity)")
    af = prog.func("quantify_entity.an")
    calls = [c for c in calls_in(af.node) if call_name(c) == qf.name]
    okan = len(calls) == 1 and src(calls[0].args[0]) == "An" and any(k.arg == cfield and isinstance(k.value, ast.Name) and k.value.id in af.params for k in calls[0].keywords)
    # and _quantify_entity forwards **kwargs to the quantifier
    kwname = qf.node.args.kwarg.arg if qf.node.args.kwarg else None
    qcalls = [c for c in calls_in(qf.node) if isinstance(c.func, ast.Name) and c.func.id == qf.params[0]]
    fw = bool(qcalls) and kwname is not None and all(any(k.arg is None and isinstance(k.value, ast.Name) and k.value.id == kwname for k in c.keywords) for c in qcalls)
    # every way out of the helper hands back such a construction
    rets = [n for n in walk_local(qf.node) if isinstance(n, ast.Return)]
    fw = fw and bool(rets) and all(n.value is not None and any(n.value is c for c in qcalls) for n in rets)
    r.check(okan and bool(fw), "an#builder", site(af), src(calls[0]) if calls else "", f"an() forwards quantification as {cfield}",
            f"an() does not hand its quantification argument to An as {cfield} on every path of {qf.name} (each quantifier construction must forward **{kwname})")
    # handlers in The._evaluate__
    f = the.methods.get("_evaluate__")
    less = prog.cls("failures.LessThanExpectedNumberOfSolutions").qual
    greater = prog.cls("failures.GreaterThanExpectedNumberOfSolutions").qual
    nosol = prog.cls("failures.NoSolutionFound").qual
    multi = prog.cls("failures.MultipleSolutionFound").qual
    r.check(prog.is_subclass(nosol, less), "NoSolutionFound#hierarchy", prog.classes[nosol].loc, "", "subclass of LessThan...", "NoSolutionFound is not a LessThanExpectedNumberOfSolutions")
    r.check(prog.is_subclass(multi, greater), "MultipleSolutionFound#hierarchy", prog.classes[multi].loc, "", "subclass of GreaterThan...", "MultipleSolutionFound is not a GreaterThanExpectedNumberOfSolutions")
    mapping = {}
    covered = False
    if f is not None:
        for t in [n for n in walk_local(f.node) if isinstance(n, ast.Try)]:
            body_txt = " ".join(src(s) for s in t.body)
            if "super()._evaluate__" in body_txt and any(isinstance(x, (ast.YieldFrom, ast.Yield, ast.For)) for s in t.body for x in ast.walk(s)):
                covered = True
                for h in t.handlers:
                    types = h.type.elts if isinstance(h.type, ast.Tuple) else [h.type]
                    raised = [s for s in h.body if isinstance(s, ast.Raise)]
                    rq_ = None
                    if raised and raised[0].exc is not None:
                        e = raised[0].exc
                        rq_ = the.module.resolve(e.func if isinstance(e, ast.Call) else e)
                    for ty in types:
                        mapping[the.module.resolve(ty) if ty is not None else "BaseException"] = rq_
    r.check(covered, "The._evaluate__#try-covers-super", site(f) if f else the.loc, "", "count errors of the base evaluation are intercepted",
            "The._evaluate__ does not wrap the base evaluation in a try block")

    def maps(src_q, dst_q):
        for k, v in mapping.items():
            if k in prog.classes and prog.is_subclass(src_q, k) and v in prog.classes:
                return prog.is_subclass(v, dst_q), v
        return False, None

    okl, got = maps(less, nosol)
    r.check(okl, "The._evaluate__#Less->NoSolutionFound", site(f) if f else the.loc, "", "mapped", f"LessThanExpected... is mapped to {got}")
    okg, got = maps(greater, multi)
    r.check(okg, "The._evaluate__#Greater->MultipleSolutionFound", site(f) if f else the.loc, "", "mapped", f"GreaterThanExpected... is mapped to {got}")
    return r


def qc_errors(prog: Program) -> RuleResult:
    """The errors the property promises are built while the violation is being reported: whatever their constructors evaluate on the
    quantifier must be defined for *every* quantifier (entity and set_of alike), or the construction itself raises something else."""
    from ..callgraph import self_closure

    r = RuleResult("QC-ERRORS", "building a quantification error cannot itself raise", floor=2)
    base = prog.cls("failures.QuantificationNotSatisfiedError")
    rq = prog.cls("symbolic.ResultQuantifier")
    quantifiers = [c for c in prog.subclasses(rq.qual)]
    for c in sorted(prog.subclasses(base.qual), key=lambda x: x.qual):
        members = [m for n, m in c.methods.items() if n in ("__post_init__", "__init__", "__str__", "__repr__") or m.is_property]
        for m in members:
            bad = None
            fs, _ = self_closure(prog, c.qual, m, True)
            for g in fs:
                for x in walk_local(g.node):
                    # self.expression.<attr>: what does <attr> run on a quantifier?
                    if isinstance(x, ast.Attribute) and isinstance(x.value, ast.Attribute) and isinstance(x.value.value, ast.Name) and x.value.value.id == g.params[0] and x.value.attr == "expression":
                        for q in quantifiers:
                            t = prog.lookup(q.qual, x.attr)
                            if t is not None and (t.is_property or t.is_cached_property):
                                gs, _ = self_closure(prog, q.qual, t, True)
                                rs = [y for h in gs for y in walk_local(h.node) if isinstance(y, ast.Raise)]
                                if rs:
                                    bad = bad or (x, t, rs[0])
            r.check(bad is None, f"{c.name}.{m.name}#defined-for-every-quantifier", site(m), src(bad[0]) if bad else "",
                    "reads of the quantifier cannot raise",
                    f"{c.name}.{m.name} evaluates {src(bad[0]) if bad else ''}, and {bad[1].short if bad else ''} can raise ({src(bad[2])[:60] if bad else ''}): for such a quantifier "
                    f"(a set_of query has no single variable) building the promised error raises that exception instead")
    return r


def _opt_truth(prog):
    # the quantifier asks `if self._quantification_constraint_:` before enforcing: a constraint object must not be falsy
    from .opttruth import opt_truth

    return opt_truth(prog, ["result_quantification_constraint.ResultQuantificationConstraint"], 1)


def _domain_cache(prog):
    # a quantifier that hits its upper bound abandons the result stream in the middle: the domain value just pulled must be in the cache
    # already, or the next evaluation counts one solution fewer
    from .c03 import domain_cache

    return domain_cache(prog)


def _hv_truth(prog):
    # a solution / binding / argument whose value is falsy is a value like any other: bound values are asked for presence, not for truth
    from .hvtruth import hv_truth

    return hv_truth(prog)


def _domain_given(prog):
    # what is counted are the solutions over the domain the query was given: an empty domain has none (the(...) -> NoSolutionFound, Exactly(0) holds)
    from .c13 import domain_given

    return domain_given(prog)


def qc_entry(prog: Program) -> RuleResult:
    """an(entity, quantification=c) is where a constraint enters: c reaches the quantifier as it was given.  An entry point that drops or
    replaces a constraint it considers 'trivial' (a bound of 0 constrains nothing - true for AtLeast only) turns AtMost(0) / Exactly(0) into
    no constraint at all."""
    r = RuleResult("QC-ENTRY", "the constraint given to an() reaches the quantifier unchanged", floor=1)
    mod = [m for m in prog.modules.values() if m.name.endswith("entity_query_language.quantify_entity")]
    if not mod:
        raise AnalysisError("QC-ENTRY: quantify_entity.py vanished")
    n = 0
    for f in [f for f in prog.functions.values() if f.module is mod[0] and f.cls is None]:
        qp = [p for p in f.params if "quantification" in p]
        if not qp:
            continue
        n += 1
        q = qp[0]
        rebinds = [x for x in walk_local(f.node) if isinstance(x, (ast.Assign, ast.AugAssign, ast.AnnAssign)) and any(isinstance(t, ast.Name) and t.id == q for t in (x.targets if isinstance(x, ast.Assign) else [x.target]))]
        passes = [c for c in calls_in(f.node) if any(isinstance(a, ast.Name) and a.id == q for a in list(c.args) + [k.value for k in c.keywords])]
        cond = [x for x in walk_local(f.node) if isinstance(x, ast.IfExp) and any(isinstance(y, ast.Name) and y.id == q for y in ast.walk(x)) and any(x is k.value or x in c.args for c in calls_in(f.node) for k in c.keywords)]
        r.check(bool(passes) and not rebinds and not cond, f"{f.short}#constraint-handed-on", site(f, (rebinds or cond or [f.node])[0]), src((rebinds or cond or passes or [f.node])[0])[:80],
                f"`{q}` is passed on as it was given",
                f"`{src((rebinds or cond)[0])[:70] if (rebinds or cond) else 'the constraint is not passed on'}`: the constraint the caller gave is replaced before it reaches the quantifier - an upper "
                "bound of 0 (AtMost(0), Exactly(0)) is never enforced, every solution is handed out")
    if n < 1:
        raise AnalysisError("QC-ENTRY: no entry point takes a quantification constraint")
    return r


def run(prog: Program, tier: str) -> List[RuleResult]:
    # thorough: every cell is witnessed by all integer models up to 8 instead of 4 (same cells: the ordering domain is finite)
    return [guard(lambda: qc_table(prog, 9 if tier == "thorough" else 4)), guard(lambda: qc_ctor(prog)), guard(lambda: qc_path(prog)), guard(lambda: qc_map(prog)), guard(lambda: qc_errors(prog)), guard(lambda: _opt_truth(prog)), guard(lambda: _domain_cache(prog)), guard(lambda: _hv_truth(prog)), guard(lambda: _domain_given(prog)), guard(lambda: qc_entry(prog))]
