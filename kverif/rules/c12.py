"""C12 - predicates and symbolic functions agree between concrete and symbolic calls.

PRED-ALIGN     positional arguments are merged against the right slice of the signature
PRED-DISPATCH  the symbolic test sees the merged mapping; the symbolic path runs nothing; the
               concrete path forwards the call unchanged
PRED-ONCE      during evaluation the callable is invoked once per binding, by keyword with the
               merged names, and contributes `not bool(result)` as falsity
"""
from __future__ import annotations

import ast
from typing import List, Optional

from ..model import Program, AnalysisError, FuncInfo, walk_local, dotted, parents_of
from ..report import RuleResult, guard
from ..astutil import src, site, calls_in, call_name, is_super_call, kwarg, const_value, is_self_attr, enclosing_stmt
from ..cfg import CFG
from ..callgraph import self_closure

EXPLANATION = (
    "Argument alignment is a fact about call sites: at every call of the merge helper the number of leading "
    "signature parameters to skip must equal the number of parameters of the inspected callable that the forwarded "
    "positional arguments do not cover (1 when the callable is <class>.__init__ and the arguments exclude self, 0 "
    "when it is the very callable that the concrete branch calls with the same *args). The checker derives both "
    "numbers from the AST of each site and the helper's own slice logic. It further checks the dispatch shape of both "
    "wrappers (symbolic test on the merged mapping; symbolic branch constructs a Variable carrying the merged mapping "
    "and calls neither the function nor the allocator; concrete branch forwards *args/**kwargs unchanged) and the "
    "per-binding instantiation loop (one keyword call per combination, predicate instances are called, truth is "
    "not bool(result), nothing cached)."
)
ASSUMPTIONS = [
    "inspect.signature lists parameters in declaration order (self first for functions taken from a class)",
    "user predicate bodies are outside the property",
]

PREDMOD = "entity_query_language.predicate"


def _merge_fn(prog: Program) -> FuncInfo:
    return prog.func(PREDMOD + ".merge_args_and_kwargs")


def _effective_flag(c: ast.Call, merge: FuncInfo):
    """value of ignore_first at this call (explicit or default)"""
    params = merge.params
    name = params[3] if len(params) > 3 else "ignore_first"
    v = kwarg(c, name)
    if v is None and len(c.args) > 3:
        v = c.args[3]
    if v is None:
        a = merge.node.args
        d = dict(zip([x.arg for x in a.args[len(a.args) - len(a.defaults):]], a.defaults))
        v = d.get(name)
    return const_value(v, "?"), name


def pred_align(prog: Program) -> RuleResult:
    r = RuleResult("PRED-ALIGN", "signature slice matches the forwarded positional arguments at every merge site", floor=4)
    merge = _merge_fn(prog)
    # the helper itself: names[start:] zipped with args, kwargs override, start = 1 iff flag
    body_ok = False
    start_var = None
    for s in walk_local(merge.node):
        if isinstance(s, ast.Assign) and isinstance(s.value, ast.IfExp):
            t = s.value
            if const_value(t.body) == 1 and const_value(t.orelse) == 0 and src(t.test) == merge.params[3]:
                start_var = s.targets[0].id if isinstance(s.targets[0], ast.Name) else None
    zips = [c for c in calls_in(merge.node) if isinstance(c.func, ast.Name) and c.func.id == "zip"]
    if start_var and len(zips) == 1 and len(zips[0].args) == 2:
        a0, a1 = zips[0].args
        body_ok = (
            isinstance(a0, ast.Subscript) and isinstance(a0.slice, ast.Slice) and src(a0.slice.lower) == start_var and a0.slice.upper is None
            and src(a1) == merge.params[1]
        )
    upd = [c for c in calls_in(merge.node) if call_name(c) == "update" and c.args and src(c.args[0]) == merge.params[2]]
    r.check(body_ok, "merge_args_and_kwargs#slice", site(merge), src(zips[0]) if zips else "", "names[1 if flag else 0:] zipped with the positional arguments",
            "the helper does not zip names[start:] with the positional arguments with start = 1 iff the flag is set")
    r.check(len(upd) == 1, "merge_args_and_kwargs#kwargs-override", site(merge), src(upd[0]) if upd else "", "keyword arguments are merged last",
            "keyword arguments are not merged into the mapping")
    names = prog.func(PREDMOD + ".get_function_argument_names")
    txt = src(names.node)
    r.check("signature(" in txt and ".parameters" in txt, "get_function_argument_names#signature", site(names), "", "parameter names in declaration order",
            "argument names are not taken from inspect.signature(...).parameters")
    # the sites
    nsites = 0
    for f in prog.functions.values():
        for c in calls_in(f.node):
            ts = f.module.resolve(c.func) if isinstance(c.func, (ast.Name, ast.Attribute)) else None
            if ts != merge.qual:
                continue
            nsites += 1
            flag, _ = _effective_flag(c, merge)
            fexpr, aexpr = c.args[0], c.args[1]
            # how many leading parameters of the inspected callable are NOT covered by `args`?
            uncovered = None
            why = ""
            if isinstance(fexpr, ast.Attribute) and fexpr.attr == "__init__":
                uncovered = 1
                why = f"{src(fexpr)} is a plain function taken from the class: its first parameter (self) is not among {src(aexpr)}"
            elif isinstance(fexpr, ast.Name):
                direct = [
                    cc for cc in calls_in(f.node)
                    if isinstance(cc.func, ast.Name) and cc.func.id == fexpr.id
                    and any(isinstance(a, ast.Starred) and src(a.value) == src(aexpr) for a in cc.args)
                ]
                if direct:
                    uncovered = 0
                    why = f"{fexpr.id} is the callable the concrete branch calls as {src(direct[0])}: {src(aexpr)} covers its parameters from the first one"
            if uncovered is None:
                raise AnalysisError(f"PRED-ALIGN: cannot relate {src(fexpr)} to {src(aexpr)} at {site(f, c)}")
            want = bool(uncovered)
            r.check(
                flag is want, f"{f.short}#ignore_first", site(f, c), src(c),
                f"skips {uncovered} leading parameter(s): {why}",
                f"skips {1 if flag else 0} leading parameter(s) but {why}; a positional argument is bound one position off "
                f"(a positional variable is not recognised / the body runs on the variable)",
            )
    # every place that turns a call into a symbolic node takes its name -> argument mapping from the helper,
    # i.e. from the signature of the callable that will be invoked per binding
    ndispatch = 0
    for f in prog.functions.values():
        if not f.module.name.endswith(PREDMOD):
            continue
        for c in calls_in(f.node):
            if not (isinstance(c.func, ast.Name) and c.func.id == "Variable"):
                continue
            kw = kwarg(c, "_kwargs_")
            if kw is None or kwarg(c, "_predicate_type_") is None:
                continue
            ndispatch += 1
            defs = []
            if isinstance(kw, ast.Name):
                for x in walk_local(f.node):
                    if isinstance(x, (ast.Assign, ast.AnnAssign)) and any(isinstance(t, ast.Name) and t.id == kw.id for t in (x.targets if isinstance(x, ast.Assign) else [x.target])):
                        defs.append(x.value)
                    if isinstance(x, ast.AugAssign) and isinstance(x.target, ast.Name) and x.target.id == kw.id:
                        defs.append(x)
                    if isinstance(x, ast.Call) and isinstance(x.func, ast.Attribute) and isinstance(x.func.value, ast.Name) and x.func.value.id == kw.id and x.func.attr in ("update", "__setitem__", "setdefault", "pop"):
                        defs.append(x)
                    if isinstance(x, ast.Subscript) and isinstance(x.ctx, ast.Store) and isinstance(x.value, ast.Name) and x.value.id == kw.id:
                        defs.append(x)
            else:
                defs = [kw]
            good = len(defs) == 1 and isinstance(defs[0], ast.Call) and isinstance(defs[0].func, (ast.Name, ast.Attribute)) and f.module.resolve(defs[0].func) == merge.qual
            r.check(good, f"{f.short}#mapping-from-signature", site(f, c), src(kw), "the symbolic node's arguments are the helper's name -> argument mapping",
                    f"the name -> argument mapping of the symbolic node is built here ({'; '.join(src(d)[:60] for d in defs) or src(kw)}) instead of from the signature of the callable that runs per binding: "
                    "wherever the two orders differ (keyword-only fields, InitVar, a hand-written __init__) a positional argument is bound to the wrong parameter")
    if ndispatch < 2:
        raise AnalysisError(f"PRED-ALIGN: only {ndispatch} symbolic dispatch sites found (symbolic_function wrapper and Predicate.__new__ expected)")
    return r


def _dispatch(prog: Program, r: RuleResult, f: FuncInfo, label: str, concrete_ok, symbolic_forbidden):
    merge = _merge_fn(prog)
    merged_var = None
    for s in walk_local(f.node):
        if isinstance(s, ast.Assign) and isinstance(s.value, ast.Call) and f.module.resolve(s.value.func) == merge.qual and isinstance(s.targets[0], ast.Name):
            merged_var = s.targets[0].id
    tests = [s for s in f.node.body if isinstance(s, ast.If)]
    sym_if = None
    for s in tests:
        t = s.test
        if isinstance(t, ast.Call) and f.module.resolve(t.func) == prog.func("symbolic._any_of_the_kwargs_is_a_variable").qual:
            sym_if = s
    if merged_var is None or sym_if is None:
        r.fail(f"{label}#symbolic-test", site(f), "", "no symbolic test on a merged mapping found")
        return
    r.check(len(sym_if.test.args) == 1 and src(sym_if.test.args[0]) == merged_var, f"{label}#symbolic-test", site(f, sym_if), src(sym_if.test),
            "tests the merged positional+keyword mapping", "the symbolic test does not look at the merged mapping (positional or keyword variables are missed)")
    # symbolic branch
    rets = [s for s in sym_if.body if isinstance(s, ast.Return)]
    good = False
    if len(rets) == 1 and isinstance(rets[0].value, ast.Call) and f.module.resolve(rets[0].value.func) == prog.cls("symbolic.Variable").qual:
        kw = {k.arg: k.value for k in rets[0].value.keywords}
        good = src(kw.get("_kwargs_")) == merged_var and kw.get("_type_") is not None and kw.get("_predicate_type_") is not None
    r.check(good, f"{label}#symbolic-branch", site(f, sym_if), src(rets[0].value) if rets else "", "returns a Variable carrying the merged mapping, its callable and predicate kind",
            "the symbolic branch does not return Variable(_type_=<callable>, _kwargs_=<merged mapping>, _predicate_type_=...)")
    bad = [c for s in sym_if.body for c in calls_in(s) if symbolic_forbidden(c)]
    r.check(not bad, f"{label}#symbolic-runs-nothing", site(f, sym_if), src(bad[0]) if bad else "", "neither the callable nor the allocator runs on the symbolic path",
            "the symbolic path executes the wrapped callable / allocator")
    # concrete branch: statements after the if
    after = f.node.body[f.node.body.index(sym_if) + 1:]
    crets = [s for s in after if isinstance(s, ast.Return)] + [s for s in sym_if.orelse if isinstance(s, ast.Return)]
    r.check(len(crets) == 1 and concrete_ok(crets[0].value), f"{label}#concrete-branch", site(f, crets[0]) if crets else site(f), src(crets[0].value) if crets else "",
            "concrete call forwarded unchanged", "the concrete path does not forward the call unchanged")


def pred_dispatch(prog: Program) -> RuleResult:
    r = RuleResult("PRED-DISPATCH", "symbolic test on the merged mapping; symbolic path runs nothing; concrete path forwards", floor=8)
    wrapper = prog.functions.get(prog.func(PREDMOD + ".symbolic_function").qual + ".<locals>.wrapper")
    if wrapper is None:
        raise AnalysisError("PRED-DISPATCH: symbolic_function has no inner wrapper")
    outer = prog.func(PREDMOD + ".symbolic_function")
    fparam = outer.params[0]
    va, kw = wrapper.node.args.vararg, wrapper.node.args.kwarg
    if va is None or kw is None:
        raise AnalysisError("PRED-DISPATCH: wrapper does not take *args/**kwargs")

    def concrete_ok(e):
        return (
            isinstance(e, ast.Call) and isinstance(e.func, ast.Name) and e.func.id == fparam
            and len(e.args) == 1 and isinstance(e.args[0], ast.Starred) and src(e.args[0].value) == va.arg
            and len(e.keywords) == 1 and e.keywords[0].arg is None and src(e.keywords[0].value) == kw.arg
        )

    _dispatch(prog, r, wrapper, "symbolic_function.wrapper", concrete_ok, lambda c: isinstance(c.func, ast.Name) and c.func.id == fparam)
    rets = [s for s in outer.node.body if isinstance(s, ast.Return)]
    r.check(len(rets) == 1 and src(rets[0].value) == wrapper.name, "symbolic_function#returns-wrapper", site(outer), "", "decorator returns the wrapper", "decorator does not return its wrapper")
    pnew = prog.method(PREDMOD + ".Predicate", "__new__", inherited=False)
    clsp = pnew.params[0]

    def concrete_new(e):
        return is_super_call(e, "__new__") and len(e.args) == 1 and src(e.args[0]) == clsp

    _dispatch(prog, r, pnew, "Predicate.__new__", concrete_new, lambda c: is_super_call(c, "__new__") or (isinstance(c.func, ast.Name) and c.func.id == clsp))
    # the symbolic test itself
    anyf = prog.func("symbolic._any_of_the_kwargs_is_a_variable")
    txt = src(anyf.node)
    cbv = "CanBehaveLikeAVariable"
    ok = False
    for ret in [n for n in walk_local(anyf.node) if isinstance(n, ast.Return)]:
        v = ret.value
        if isinstance(v, ast.Call) and isinstance(v.func, ast.Name) and v.func.id == "any" and isinstance(v.args[0], ast.GeneratorExp):
            g = v.args[0]
            e = g.elt
            ok = (
                isinstance(e, ast.Call) and isinstance(e.func, ast.Name) and e.func.id == "isinstance" and src(e.args[1]) == cbv
                and src(g.generators[0].iter) == f"{anyf.params[0]}.values()" and not g.generators[0].ifs
                and src(e.args[0]) == src(g.generators[0].target)
            )
    r.check(ok, "_any_of_the_kwargs_is_a_variable#any-value", site(anyf), "", "true iff any value of the mapping can behave like a variable",
            "the symbolic test is not `any(isinstance(v, CanBehaveLikeAVariable) for v in mapping.values())`")
    return r


def _operands_never_flagged(prog: Program) -> bool:
    from .c01 import ep_operand

    return not any(not o.ok for o in ep_operand(prog).obligations)


def pred_once(prog: Program) -> RuleResult:
    r = RuleResult("PRED-ONCE", "one keyword invocation per binding; predicate instances are called; falsity = not bool(result)", floor=5)
    var = prog.cls("symbolic.Variable")
    f = prog.method(var.qual, "_instantiate_using_child_vars_and_yield_results_", inherited=False)
    loops = [n for n in f.node.body if isinstance(n, ast.For)]
    if len(loops) != 1:
        raise AnalysisError("PRED-ONCE: expected one loop over the argument combinations")
    loop = loops[0]
    cfg = CFG(f.node)
    inst_calls = [c for c in calls_in(loop) if is_self_attr(c.func, "_type_")]
    r.check(len(inst_calls) == 1 and not inst_calls[0].args and len(inst_calls[0].keywords) == 1 and inst_calls[0].keywords[0].arg is None,
            "Variable._instantiate#one-keyword-call", site(f, loop), src(inst_calls[0]) if inst_calls else "", "exactly one call of the callable per combination, by keyword only",
            f"{len(inst_calls)} calls of the callable per combination / not keyword-only")
    if inst_calls:
        n = cfg.node_of(inst_calls[0])
        direct = n is not None and len(cfg.nodes[n].loops) == 1
        r.check(direct, "Variable._instantiate#not-nested", site(f, inst_calls[0]), "", "call sits directly in the combination loop", "the call is nested in a further loop (invoked more than once per binding)")
        # keyword names are the merged names: dict comprehension over bound kwargs keyed by the same k
        kwv = inst_calls[0].keywords[0].value
        ok = isinstance(kwv, ast.DictComp) and isinstance(kwv.key, ast.Name) and src(kwv.value).endswith(".value")
        r.check(ok, "Variable._instantiate#names", site(f, inst_calls[0]), src(kwv), "each parameter receives the unwrapped value bound under its own name",
                "parameters are not passed as {name: bound value} of the merged mapping")
    # predicate classes: instance() under the SubClassOfPredicate guard
    called = False
    for s in loop.body:
        if isinstance(s, ast.If) and "SubClassOfPredicate" in src(s.test) and "_predicate_type_" in src(s.test):
            for a in s.body:
                if isinstance(a, ast.Assign) and isinstance(a.value, ast.Call) and not a.value.args and isinstance(a.value.func, ast.Name):
                    called = True
    r.check(called, "Variable._instantiate#predicate-called", site(f, loop), "", "Predicate instances are evaluated by calling them", "a Predicate instance is not called: its truth is never computed")
    cached = [d for d in f.decorators if d.split(".")[-1] in ("lru_cache", "cache", "cached_property")]
    r.check(not cached, "Variable._instantiate#no-cache", site(f), str(cached), "no memoisation of invocations", "invocations are memoised")
    # falsity of the emitted result
    g = prog.method(var.qual, "_process_output_and_update_values_", inherited=False)
    rets = [n for n in walk_local(g.node) if isinstance(n, ast.Return) and isinstance(n.value, ast.Call)]
    ok = False
    if len(rets) == 1 and len(rets[0].value.args) >= 2:
        flag = rets[0].value.args[1]

        def is_truth_of_result(e):
            return isinstance(e, ast.UnaryOp) and isinstance(e.op, ast.Not) and src(e.operand) in (f"bool({g.params[1]})", g.params[1])

        if isinstance(flag, ast.Name):
            # a local: every value it gets is `not bool(result)` (in condition position, EP-OPERAND of C01) or the constant False (as an operand)
            vals = [x.value for x in walk_local(g.node) if isinstance(x, ast.Assign) and any(isinstance(t, ast.Name) and t.id == flag.id for t in x.targets)]
            leaves = []
            for v in vals:
                todo = [v]
                while todo:
                    y = todo.pop()
                    if isinstance(y, ast.IfExp):
                        todo += [y.body, y.orelse]
                    else:
                        leaves.append(y)
            ok = any(is_truth_of_result(v) for v in leaves) and all(is_truth_of_result(v) or (isinstance(v, ast.Constant) and v.value is False) for v in leaves)
        else:
            ok = is_truth_of_result(flag)
    r.check(ok, "Variable._process_output#truth", site(g), src(rets[0].value) if rets else "", "is_false = not bool(result)", "the emitted falsity is not `not bool(result)` of the invocation")
    # ... and whether that truth is taken depends on where the call stands, never on what the result is: a test on the result in front of
    # it (`hasattr(result, '__len__')`, isinstance, a comparison) makes some falsy results - '', [], 0 - count as true
    from ..model import parents_of as _parents_of

    par = _parents_of(g.node)
    local1 = {}
    for x in walk_local(g.node):
        if isinstance(x, ast.Assign) and len(x.targets) == 1 and isinstance(x.targets[0], ast.Name):
            local1.setdefault(x.targets[0].id, []).append(x.value)

    def position_only(t):
        if isinstance(t, ast.UnaryOp) and isinstance(t.op, ast.Not):
            return position_only(t.operand)
        if isinstance(t, ast.BoolOp):
            return all(position_only(v) for v in t.values)
        if isinstance(t, ast.Name) and len(local1.get(t.id, [])) == 1:
            return position_only(local1[t.id][0])
        names = {y.id for y in ast.walk(t) if isinstance(y, ast.Name)}
        return names <= {g.params[0]} and ("_stands_as_condition_" in src(t) or "_parent_" in src(t))

    n_truth = 0
    for x in walk_local(g.node):
        if not (isinstance(x, ast.UnaryOp) and isinstance(x.op, ast.Not) and src(x.operand) in (f"bool({g.params[1]})", g.params[1])):
            continue
        n_truth += 1
        y, bad = x, None
        while y is not g.node and y in par:
            p_ = par[y]
            if isinstance(p_, (ast.If, ast.IfExp, ast.While)) and y is not p_.test and not position_only(p_.test):
                bad = bad or p_.test
            y = p_
        r.check(bad is None, f"Variable._process_output#truth-for-every-result[{n_truth}]", site(g, x), src(bad)[:80] if bad is not None else "", "the truth of the result is taken under a test on the node's position only",
                f"`{src(x)}` is taken only when `{src(bad)[:70] if bad is not None else ''}` holds: the test looks at something else than where the call stands, so for some results "
                "(an empty text, list or tuple, a user object with __len__ 0) a call that returns a falsy value counts as true")
    # every value an argument expression produces reaches the callable: an argument's result is a value, not a condition, so the
    # loops that enumerate argument values may not filter on its truth flag (a nested call returning 0 / False / '' is still an argument)
    from ..callgraph import self_closure as _sc

    gen = prog.method(var.qual, "_generate_combinations_for_child_vars_values_", inherited=False)
    if gen is None:
        raise AnalysisError("PRED-ONCE: Variable._generate_combinations_for_child_vars_values_ vanished")
    fs, _ = _sc(prog, var.qual, gen, False)
    n_loops = 0
    for h in sorted(fs, key=lambda x: x.qual):
        single = {}
        for x in walk_local(h.node):
            if isinstance(x, ast.Assign) and len(x.targets) == 1 and isinstance(x.targets[0], ast.Name):
                single.setdefault(x.targets[0].id, []).append(x.value)
        class _CompLoop:
            """a comprehension clause seen as a loop: `for t in it if c` inside a generator expression / comprehension"""
            def __init__(self, comp, owner):
                self.iter, self.target, self.lineno, self.col_offset = comp.iter, comp.target, owner.lineno, owner.col_offset
                self._fields = ()
                self.parts = [owner]
        loops = [x for x in walk_local(h.node) if isinstance(x, ast.For)]
        comp_loops = [(_CompLoop(g_, x), x) for x in walk_local(h.node) if isinstance(x, (ast.GeneratorExp, ast.ListComp, ast.SetComp, ast.DictComp)) for g_ in x.generators]
        for lp, scope in [(x, x) for x in loops] + comp_loops:
            it = lp.iter
            if isinstance(it, ast.Name) and len(single.get(it.id, [])) == 1:
                it = single[it.id][0]
            if not any(isinstance(c, ast.Call) and call_name(c) == "_evaluate__" for c in ast.walk(it)):
                continue
            n_loops += 1
            why = None
            if not (isinstance(it, ast.Call) and call_name(it) == "_evaluate__"):
                why = f"the values are taken from {src(it)[:60]}, not from the evaluation itself"
            tv = {x.id for x in ast.walk(lp.target) if isinstance(x, ast.Name)}
            for t in [x for x in ast.walk(scope) if isinstance(x, (ast.If, ast.IfExp, ast.comprehension))]:
                tests = [t.test] if not isinstance(t, ast.comprehension) else t.ifs
                for tt in tests:
                    if any(isinstance(a, ast.Attribute) and a.attr in ("is_true", "is_false", "_is_false_") and isinstance(a.value, ast.Name) and a.value.id in tv for a in ast.walk(tt)):
                        why = why or f"results are tested on {src(tt)[:50]}"
            # a filter on the truth flag only matters if an argument can arrive flagged false: EP-OPERAND (C01, also run for this
            # property) decides that operand results are never flagged from the truth of their value
            if why is not None and _operands_never_flagged(prog):
                r.ok(f"{h.short}#every-argument-value", site(h, scope), src(lp.iter)[:80], f"{why}, but no operand result can be flagged false (EP-OPERAND holds): nothing is dropped")
                continue
            r.check(why is None, f"{h.short}#every-argument-value", site(h, scope), src(lp.iter)[:80], "every result of the argument expression is handed on",
                    f"{why}: a binding whose argument value is falsy (a nested symbolic call returning 0, False or an empty collection) never reaches the callable, "
                    f"although the concrete call is defined for it")
    if n_loops == 0:
        raise AnalysisError("PRED-ONCE: no loop over argument evaluations found in the argument generation closure")
    # result carries bindings of all arguments
    upd = [c for c in calls_in(g.node) if call_name(c) == "update"]
    r.check(bool(upd), "Variable._process_output#bindings", site(g), "", "argument bindings are merged into the result", "argument bindings are dropped from the result")
    return r


COMPUTED_MARKS = ("_predicate_type_", "_should_be_instantiated_", "_child_vars_", "_kwargs_")


def pred_fresh(prog: Program) -> RuleResult:
    """A call node answers with the value bound under its own id when there is one.  Whoever keeps bindings of one evaluation of
    a condition and evaluates the condition again for another value of a variable must therefore not keep the call's own result."""
    r = RuleResult("PRED-FRESH", "bindings carried to the next value of a quantified variable do not contain results of calls", floor=2)
    var = prog.cls("symbolic.Variable")
    ev = prog.method(var.qual, "_evaluate__", inherited=False)
    answers_from_bindings = any(isinstance(t, ast.If) and isinstance(t.test, ast.Compare) and isinstance(t.test.ops[0], ast.In) and "_id_" in src(t.test.left) for t in walk_local(ev.node))
    r.note(f"Variable._evaluate__ answers from the incoming bindings when its id is bound: {answers_from_bindings}")
    qc = prog.cls("symbolic.QuantifiedConditional")
    n = 0
    for c in [x for x in prog.subclasses(qc.qual, strict=True) if not prog.is_abstract_class(x.qual)]:
        fs, _ = self_closure(prog, c.qual, prog.lookup(c.qual, "_evaluate__"), True)
        fs = [f for f in fs if f.cls is not None and prog.is_subclass(c.qual, f.cls.qual) and prog.is_subclass(f.cls.qual, qc.qual)]
        # does the operator evaluate its condition again inside the loop over the values of the quantified expression,
        # under bindings kept from an earlier evaluation?
        reeval = None
        for f in fs:
            for lp in [x for x in walk_local(f.node) if isinstance(x, ast.For)]:
                if "variable" not in src(lp.iter) and "left" not in src(lp.iter):
                    continue
                for cc in calls_in(lp):
                    if call_name(cc) in ("evaluate_condition", "_evaluate__") and cc is not lp.iter and cc.args:
                        a0 = cc.args[0]
                        if isinstance(a0, ast.Dict) and sum(1 for k in a0.keys if k is None) >= 2:
                            reeval = (f, cc)
        if reeval is None:
            continue
        n += 1
        f, cc = reeval
        if not answers_from_bindings:
            r.ok(f"{c.name}#carried-bindings", site(f, cc), src(cc), "call nodes do not answer from bindings")
            continue
        # the kept bindings are projections of condition results: {k: v for k, v in <result>.bindings.items() if k in self.<ids>}
        projs = []
        for g in fs:
            for dc in [x for x in walk_local(g.node) if isinstance(x, ast.DictComp)]:
                gen = dc.generators[0]
                if src(gen.iter).endswith(".bindings.items()"):
                    for cond in gen.ifs:
                        if isinstance(cond, ast.Compare) and isinstance(cond.ops[0], ast.In) and is_self_attr(cond.comparators[0]):
                            projs.append((g, dc, cond.comparators[0].attr))
        r.check(bool(projs), f"{c.name}#carried-bindings-projected", site(f, cc), src(cc), "kept bindings are projected on a fixed set of variable ids",
                "the bindings of a condition result are carried to the next value of the quantified expression as they are: every call and attribute node of the condition "
                "then answers with its previous result")
        # ... and every result of an evaluation other than that of the quantified expression gives its bindings away through
        # such a projection only (one projection somewhere in the class is not enough: each place results are taken from counts)
        proj_iters = {id(dc.generators[0].iter) for _, dc, _ in projs}

        def _unprojected(root, name):
            """the uses of <name>.bindings under root that are not the source of a projection"""
            bad = []
            par = parents_of(root)
            for a in ast.walk(root):
                if not (isinstance(a, ast.Attribute) and a.attr == "bindings" and isinstance(a.value, ast.Name) and a.value.id == name):
                    continue
                up = par.get(a)
                # <name>.bindings.items() as the source of a projection
                if isinstance(up, ast.Attribute) and up.attr == "items":
                    call = par.get(up)
                    if isinstance(call, ast.Call) and id(call) in proj_iters:
                        continue
                bad.append(enclosing_stmt(par, a))
            return bad

        for g in fs:
            for lp in [x for x in walk_local(g.node) if isinstance(x, ast.For)]:
                it = lp.iter
                if not (isinstance(it, ast.Call) and call_name(it) == "_evaluate__" and isinstance(it.func, ast.Attribute)):
                    continue
                if src(it.func.value) in ("self.variable", "self.left"):
                    continue
                if not isinstance(lp.target, ast.Name):
                    continue
                bad = _unprojected(lp, lp.target.id)
                r.check(not bad, f"{c.name}.{g.name}#results-of-{src(it.func.value).replace('self.', '')}-projected", site(g, lp), src(bad[0] if bad else it)[:80],
                        "the bindings of each result are taken through the projection on the free variable ids",
                        f"the bindings of a result of {src(it.func.value)} are taken as they are ({src(bad[0])[:80] if bad else ''}): they hold the results of the "
                        f"condition's call and attribute nodes, which then answer the next value of the quantified expression with the result of this one")
        for g, dc, attr in projs:
            p = prog.lookup(c.qual, attr)
            if p is None:
                raise AnalysisError(f"PRED-FRESH: {c.name}.{attr} not found")
            comps = [x for x in walk_local(p.node) if isinstance(x, (ast.ListComp, ast.SetComp, ast.GeneratorExp))]
            loops = [x for x in walk_local(p.node) if isinstance(x, ast.For)]
            ok = False
            def _excludes_computed(cond):
                # `not v._predicate_type_` or `v._predicate_type_ is None`: every kind of computed variable is left out
                if isinstance(cond, ast.UnaryOp) and isinstance(cond.op, ast.Not) and any(m in src(cond.operand) for m in COMPUTED_MARKS):
                    return True
                return (isinstance(cond, ast.Compare) and len(cond.ops) == 1 and isinstance(cond.ops[0], (ast.Is, ast.Eq)) and isinstance(cond.comparators[0], ast.Constant)
                        and cond.comparators[0].value is None and any(m in src(cond.left) for m in COMPUTED_MARKS))

            for x in comps:
                for cond in x.generators[0].ifs:
                    # (one conjunct of the filter is enough: further conjuncts only leave out more)
                    conjuncts = cond.values if isinstance(cond, ast.BoolOp) and isinstance(cond.op, ast.And) else [cond]
                    if any(_excludes_computed(cj) for cj in conjuncts):
                        ok = True
            for lp in loops:
                for t in [y for y in ast.walk(lp) if isinstance(y, ast.If)]:
                    if any(m in src(t.test) for m in COMPUTED_MARKS):
                        ok = True
            r.check(ok, f"{c.name}.{attr}#free-variables-only", site(p), src(comps[0])[:100] if comps else "", "variables that are computed from their arguments (predicates, symbolic functions) are left out",
                    f"the ids kept from one evaluation of the condition to the next include the condition's call nodes: for_all(y, p(x, y)) evaluates p for the first y only and answers "
                    f"every further y with that result (Variable._evaluate__ returns the value bound under its id)")
    if n < 1:
        raise AnalysisError("PRED-FRESH: no quantifier re-evaluates its condition under kept bindings (ForAll expected)")
    return r


def lit_one(prog: Program) -> RuleResult:
    """A concrete argument of a symbolic call becomes a Literal, and at every binding the parameter gets *that value*: None, an empty
    collection, a collection.  So the literal's domain is the one-element list of its data on every path through its constructor -
    never the data itself (a collection would be taken for a domain of several values, None for 'no domain')."""
    r = RuleResult("LIT-ONE", "a literal's domain is the one-element list of its data, whatever the data is", floor=1)
    lit = prog.cls("symbolic.Literal")
    f = prog.method(lit.qual, "__init__", inherited=False)
    dparam = f.params[1]
    cfg = CFG(f.node)
    sup = [c for c in calls_in(f.node) if is_super_call(c, "__init__")]
    if len(sup) != 1:
        raise AnalysisError("LIT-ONE: Literal.__init__ no longer has a single super().__init__ call")
    ds = kwarg(sup[0], "_domain_source_")
    if ds is None:
        raise AnalysisError("LIT-ONE: Literal.__init__ no longer passes _domain_source_")
    inner = ds.args[0] if isinstance(ds, ast.Call) and ds.args else ds
    aliases = {dparam} | {a.targets[0].id for a in walk_local(f.node) if isinstance(a, ast.Assign) and len(a.targets) == 1 and isinstance(a.targets[0], ast.Name) and isinstance(a.value, ast.Name) and a.value.id == dparam}

    def is_wrap(e) -> bool:
        return isinstance(e, (ast.List, ast.Tuple)) and len(e.elts) == 1 and isinstance(e.elts[0], ast.Name) and e.elts[0].id in aliases

    ok = False
    why = f"the domain source is built from `{src(inner)}`"
    if is_wrap(inner):
        ok = True
    elif isinstance(inner, ast.Name):
        assigns = [n for n in cfg.nodes if n.kind == "stmt" and isinstance(n.stmt, ast.Assign) and any(isinstance(t, ast.Name) and t.id == inner.id for t in n.stmt.targets)]
        wraps = [n for n in assigns if is_wrap(n.stmt.value)]
        others = [n for n in assigns if n not in wraps]
        call_node = cfg.node_of(sup[0])
        raw_reaches = inner.id in f.params and cfg.path_avoiding(cfg.entry, call_node, {n.id for n in assigns}) is not None
        # a later assignment that is not the wrap must not lie between a wrap and the call
        overwritten = any(cfg.path_avoiding(o.id, call_node, {w.id for w in wraps}) is not None for o in others)
        ok = bool(wraps) and not raw_reaches and not overwritten
        if raw_reaches:
            why = f"on some path `{inner.id}` reaches the domain source as the raw argument (not wrapped in a one-element list)"
        elif overwritten:
            why = f"`{inner.id}` is assigned something other than [data] after it was wrapped"
    r.check(ok, "Literal.__init__#domain-is-the-one-element-list", site(f, sup[0]), src(ds)[:80], "From([data]) on every path",
            f"{why}: a concrete None then has an empty domain (evaluation raises 'Cannot evaluate variable' instead of invoking the predicate with None), a concrete collection is "
            "spread over several bindings instead of being passed as one value")
    return r


def arg_symbolic(prog: Program) -> RuleResult:
    """An argument that is an expression of the language - a variable, an attribute chain, but also a comparison or a logical combination -
    is evaluated per binding and its *value* is what the parameter gets.  The test that decides between 'keep symbolic' and 'wrap as a
    literal' has to admit every concrete expression class; an expression wrapped as a literal is passed as the (always truthy) node."""
    from .c01 import concrete_classes

    r = RuleResult("ARG-SYMBOLIC", "every expression of the language stays symbolic as an argument of a symbolic call", floor=1)
    var = prog.cls("symbolic.Variable")
    f = prog.method(var.qual, "_update_child_vars_from_kwargs_", inherited=False)
    if f is None:
        raise AnalysisError("ARG-SYMBOLIC: Variable._update_child_vars_from_kwargs_ vanished")
    concrete = concrete_classes(prog)
    tests = [t for t in walk_local(f.node) if isinstance(t, (ast.If, ast.IfExp)) and any(isinstance(c, ast.Call) and isinstance(c.func, ast.Name) and c.func.id == "isinstance" for c in ast.walk(t.test))]
    lit_branch = [t for t in tests if any(isinstance(c, ast.Call) and isinstance(c.func, ast.Name) and c.func.id == "Literal" for c in ast.walk(t))]
    if not lit_branch:
        raise AnalysisError("ARG-SYMBOLIC: the literal / symbolic decision is no longer an isinstance test in _update_child_vars_from_kwargs_")
    for t in lit_branch:
        covered = set()
        for c in [c for c in ast.walk(t.test) if isinstance(c, ast.Call) and isinstance(c.func, ast.Name) and c.func.id == "isinstance" and len(c.args) == 2]:
            for k in (c.args[1].elts if isinstance(c.args[1], ast.Tuple) else [c.args[1]]):
                q = f.module.resolve(k)
                covered |= {x.name for x in concrete if q and prog.is_subclass(x.qual, q)}
        missing = sorted({x.name for x in concrete} - covered)
        r.check(not missing, "Variable._update_child_vars_from_kwargs_#every-expression-kind", site(f, t), src(t.test)[:80], f"all {len(concrete)} concrete expression classes are kept symbolic",
                f"arguments of kind {missing} are wrapped as literals: p(x, x.a > 2) passes the comparison *node* (always truthy, never equal to a bool) instead of its value per binding, "
                "so satisfying assignments are dropped or others reported")
    # what the parameter receives is the argument the caller wrote: a symbolic argument is kept as it is, a concrete one is wrapped - itself,
    # not a copy, a conversion or a normalised form - so that the function sees the very object a plain call would see (identity tests,
    # containers the caller fills later or the function records into)
    from ..dtable import explore, Sym, App, term

    paths = explore(prog, f, [Sym("self")], self_type=var.qual, max_paths=400, generic_loops=True)
    stores = 0
    bad = None
    for val, out, calls in paths:
        for x in calls:
            if not (isinstance(x, App) and x.fn == "setitem" and len(x.args) == 3 and term(x.args[0]) == "self._child_vars_"):
                continue
            stores += 1
            elem = term(x.args[1]).replace(", 0)", ", 1)") if term(x.args[1]).startswith("item(elem(") else None
            v = x.args[2]
            if elem is None:
                bad = bad or f"the key {term(x.args[1])[:60]} is not the keyword of the argument"
            elif isinstance(v, App) and v.fn == "Literal":
                if not (v.args and term(v.args[0]) == elem):
                    bad = bad or f"the literal wraps {term(v.args[0])[:80] if v.args else 'nothing'}, not the argument {elem}"
            elif term(v) != elem:
                bad = bad or f"the parameter gets {term(v)[:80]}, not the argument {elem}"
    if stores == 0:
        raise AnalysisError("ARG-SYMBOLIC: no path of _update_child_vars_from_kwargs_ records an argument in _child_vars_")
    r.check(bad is None, "Variable._update_child_vars_from_kwargs_#the-argument-itself", site(f), f"{stores} stores on {len(paths)} paths",
            "every parameter gets the caller's argument itself (wrapped as a literal when it is concrete)",
            f"{bad}: the function is evaluated with another object than the one the call was written with - an identity test against it fails, a container the caller fills "
            "before evaluate() is seen empty, what the function records into it is lost - while the concrete call f(*args) still sees the caller's object")
    return r


def pred_names(prog: Program) -> RuleResult:
    """Parameter names are a function of the callable itself: a cache may be keyed by the callable (lru_cache, dict[function])
    but not by something derived from it (name, qualname, module) - distinct callables can share those."""
    r = RuleResult("PRED-NAMES", "parameter names are looked up per callable object", floor=1)
    f = prog.func(PREDMOD + ".get_function_argument_names")
    p = f.params[0]
    bad = None
    for n in walk_local(f.node):
        key = None
        if isinstance(n, ast.Subscript) and not isinstance(n.value, ast.Call):
            key = n.slice
        elif isinstance(n, ast.Call) and call_name(n) in ("get", "setdefault") and n.args:
            key = n.args[0]
        elif isinstance(n, ast.Compare) and any(isinstance(o, (ast.In, ast.NotIn)) for o in n.ops):
            key = n.left
        if key is None:
            continue
        kexpr = key
        if isinstance(key, ast.Name):
            for st in walk_local(f.node):
                if isinstance(st, ast.Assign) and src(st.targets[0]) == key.id:
                    kexpr = st.value
        derived = [x for x in ast.walk(kexpr) if isinstance(x, ast.Attribute) and isinstance(x.value, ast.Name) and x.value.id == p]
        if derived and not (isinstance(kexpr, ast.Name) and kexpr.id == p):
            bad = (n, src(kexpr))
    r.check(bad is None, "get_function_argument_names#cache-key", site(f, bad[0]) if bad else site(f), bad[1] if bad else "lru_cache / no cache",
            "names are computed from, or cached under, the callable itself",
            f"parameter names are cached under {bad[1] if bad else ''}, which distinct callables can share (functions made by one factory, lambdas, redefinitions): the second callable's "
            f"positional arguments are bound to the first one's parameter names")
    return r


def _hv_truth(prog):
    # a solution / binding / argument whose value is falsy is a value like any other: bound values are asked for presence, not for truth
    from .hvtruth import hv_truth

    return hv_truth(prog)


def arg_vars(prog: Program) -> RuleResult:
    """The variables of a call are those of its arguments, all the way down: in bigger(double(x), y) the call depends on x.  exists / for_all /
    or_ decide what a condition is judged *per value of* from that list; an argument that is itself a call and is taken for a leaf hides x -
    exists() then answers the first satisfying x only, not_(exists()) accepts every x."""
    r = RuleResult("ARG-VARS", "the variables of a call include the variables of its arguments, recursively", floor=1)
    var = prog.cls("symbolic.Variable")
    f = var.methods.get("_all_variable_instances_")
    if f is None:
        raise AnalysisError("ARG-VARS: Variable._all_variable_instances_ vanished")
    loops = [x for x in walk_local(f.node) if isinstance(x, (ast.For, ast.comprehension)) and "_child_vars_" in src(x.iter)]
    if not loops:
        raise AnalysisError("ARG-VARS: the child variables are no longer walked")
    bad = None
    n_rec = 0
    for lp in loops:
        tv = {y.id for y in ast.walk(lp.target) if isinstance(y, ast.Name)}
        body = lp.body if isinstance(lp, ast.For) else []
        rec = [y for st in body for y in ast.walk(st) if isinstance(y, ast.Attribute) and y.attr == "_all_variable_instances_" and isinstance(y.value, ast.Name) and y.value.id in tv]
        n_rec += len(rec)
        # the recursion has to be unconditional: a branch that takes a child for a leaf (append(v)) skips what is below it
        for st in body:
            for t in [y for y in ast.walk(st) if isinstance(y, ast.If)]:
                shortcut = [c for b in t.body + t.orelse for c in ast.walk(b) if isinstance(c, ast.Call) and isinstance(c.func, ast.Attribute) and c.func.attr in ("append", "add") and c.args and isinstance(c.args[0], ast.Name) and c.args[0].id in tv]
                if shortcut:
                    bad = bad or (t, shortcut[0])
    r.check(n_rec > 0 and bad is None, f"{f.short}#arguments-recursively", site(f, bad[0]) if bad else site(f), src(bad[1])[:60] if bad else f"{n_rec} recursive step(s)", "every argument contributes its own variables",
            f"under `{src(bad[0].test)[:50] if bad else ''}` an argument is taken for a leaf (`{src(bad[1])[:40] if bad else ''}`): the variables below an argument that is itself a call are missing - "
            "exists(y, bigger(double(x), y)) gives every x the same key and answers the first satisfying x only")
    return r


def _cond_fold(prog):
    # a call with ordinary objects returns its plain result (a bool, a predicate instance); written as a condition it is folded like any
    # other condition - and a predicate instance is judged by its verdict, when the query is evaluated
    from .c01 import cond_fold

    return cond_fold(prog)


def run(prog: Program, tier: str) -> List[RuleResult]:
    from .c01 import ep_operand
    from .c02 import ep_bound

    # the truth a symbolic call contributes: flagged from its result only in condition position (shared with C01)
    return [guard(lambda: pred_align(prog)), guard(lambda: pred_dispatch(prog)), guard(lambda: pred_once(prog)), guard(lambda: pred_names(prog)), guard(lambda: pred_fresh(prog)), guard(lambda: lit_one(prog)), guard(lambda: arg_symbolic(prog)), guard(lambda: ep_operand(prog)),
            # a variable written in two positions of a call, or bound by an earlier conjunct, reaches the callable with its bound value -
            # whatever that value is: a falsy one taken for "not bound" is enumerated again and the callable runs with arguments that were never written together
            guard(lambda: ep_bound(prog)), guard(lambda: _hv_truth(prog)), guard(lambda: _cond_fold(prog)), guard(lambda: arg_vars(prog))]
