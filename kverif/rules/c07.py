"""C07 - an EQL query translated to SQL selects the same entities as in-memory evaluation.

SQL-REJECT  exhaustive rejection: for every concrete expression class and every position the
            translator inspects, the class is either translated or rejected with an
            EQLTranslationError - never passed through, never answered from a sample
SQL-OPS     every comparison operator of the language has a translation branch; unknown -> error
SQL-VARID   the identity of the variable under an attribute chain reaches the choice of FROM
            element or a rejection; mapping by type alone conflates two variables of one class
SQL-FETCH   the(...) on the database counts result rows as in-memory evaluation counts bindings: the fetch chain ends
            in the strict one-row call and neither the chain nor the statement collapses or limits rows
Semantic equivalence of the produced statement is not decided.
"""
from __future__ import annotations

import ast
from typing import Dict, List, Optional, Set, Tuple

from ..model import Program, AnalysisError, FuncInfo, ClassInfo, walk_local, dotted, parents_of
from ..report import RuleResult, guard
from ..astutil import src, site, calls_in, call_name, is_self_attr
from ..callgraph import self_closure

EXPLANATION = (
    "Exhaustiveness over the class hierarchy: the set of concrete SymbolicExpression subclasses is computed from the program "
    "model (new node kinds are included automatically). For each position the translator inspects (root condition, comparator "
    "operand, quantifier, select-like) its isinstance dispatch is extracted from the AST and every concrete class is pushed "
    "through it: the branch it reaches must translate it, or raise a subclass of EQLTranslationError; a branch that returns the "
    "node unchanged, replaces a variable by a sample of its domain, or dereferences an attribute that only some classes of that "
    "position have, answers differently instead of rejecting. SQL-VARID follows the leaf variable of an attribute chain: it must "
    "flow into the FROM-element choice or into an identity test that guards a rejection. These are necessary conditions of "
    "'accepted => same entities'; the meaning of the generated statement is not decided."
)
ASSUMPTIONS = [
    "SQLAlchemy executes the produced statement as written",
    "only the structural rejection/identity clauses are decided; equivalence of accepted translations is not",
]

TR = "eql_interface.EQLTranslator"
SE = "symbolic.SymbolicExpression"


def concrete_expression_classes(prog: Program) -> List[ClassInfo]:
    se = prog.cls(SE)
    out = []
    for c in prog.subclasses(se.qual):
        if not prog.is_abstract_class(c.qual) and "ABC" not in [b.split(".")[-1] for b in c.bases]:
            out.append(c)
    return out


def _branches(f: FuncInfo, param: str):
    """top-level isinstance dispatch: [(class exprs, body)], default body"""
    out = []
    rest_start = 0
    for i, s in enumerate(f.node.body):
        if isinstance(s, ast.If) and isinstance(s.test, ast.Call) and isinstance(s.test.func, ast.Name) and s.test.func.id == "isinstance" and src(s.test.args[0]) == param:
            t = s.test.args[1]
            out.append(((t.elts if isinstance(t, ast.Tuple) else [t]), s.body))
            rest_start = i + 1
            cur = s
            while cur.orelse and len(cur.orelse) == 1 and isinstance(cur.orelse[0], ast.If) and isinstance(cur.orelse[0].test, ast.Call) and src(cur.orelse[0].test.func) == "isinstance":
                cur = cur.orelse[0]
                t = cur.test.args[1]
                out.append(((t.elts if isinstance(t, ast.Tuple) else [t]), cur.body))
    default = f.node.body[rest_start:]
    return out, default


def _classify_body(prog: Program, f: FuncInfo, body: List[ast.stmt], param: str, err_base: str) -> str:
    for s in body:
        if isinstance(s, ast.Raise) and s.exc is not None:
            e = s.exc.func if isinstance(s.exc, ast.Call) else s.exc
            q = f.module.resolve(e)
            return "raise" if q in prog.classes and prog.is_subclass(q, err_base) else "raise-other"
        if isinstance(s, ast.Return):
            if s.value is not None and src(s.value) == param:
                return "passthrough"
            return "handled"
    return "handled"


def sql_reject(prog: Program) -> RuleResult:
    r = RuleResult("SQL-REJECT", "every concrete expression class is translated or rejected at every inspected position", floor=6)
    tr = prog.cls(TR)
    err = prog.cls("eql_interface.EQLTranslationError").qual
    concrete = concrete_expression_classes(prog)
    if len(concrete) < 15:
        raise AnalysisError(f"SQL-REJECT: only {len(concrete)} concrete expression classes found")
    r.note(f"{len(concrete)} concrete expression classes: {[c.name for c in concrete]}")

    def reach(f, param):
        branches, default = _branches(f, param)
        res: Dict[str, List[str]] = {}
        for c in concrete:
            hit = None
            for i, (types, body) in enumerate(branches):
                for t in types:
                    q = f.module.resolve(t)
                    if q in prog.classes and prog.is_subclass(c.qual, q):
                        hit = (f"branch:{'|'.join(src(x) for x in types)}", body)
                        break
                if hit:
                    break
            if hit is None:
                hit = ("default", default)
            res.setdefault(hit[0], []).append(c.name)
        return branches, default, res

    # (a) root condition / nested conditions
    f = prog.method(tr.qual, "translate_query", inherited=False)
    p = f.params[1]
    branches, default, res = reach(f, p)
    kind = _classify_body(prog, f, default, p, err)
    r.check(kind == "raise", "EQLTranslator.translate_query#default", site(f), f"default branch <- {res.get('default', [])}", "untranslatable condition kinds are rejected with an EQLTranslationError",
            f"condition kinds {res.get('default', [])} reach a default branch that is '{kind}', not a rejection")
    for types, body in branches:
        k = _classify_body(prog, f, body, p, err)
        r.check(k in ("handled", "raise"), f"EQLTranslator.translate_query#{'|'.join(src(x) for x in types)}", site(f), "", "translated by a dedicated method", f"branch is '{k}'")
    # (b) comparator operand
    f = prog.method(tr.qual, "_translate_comparator_operand", inherited=False)
    p = f.params[1]
    branches, default, res = reach(f, p)
    kind = _classify_body(prog, f, default, p, err)
    r.check(
        kind == "raise", "EQLTranslator._translate_comparator_operand#default", site(f), f"default branch <- {res.get('default', [])}",
        "operands that cannot be expressed in SQL are rejected",
        f"operands of kinds {res.get('default', [])} are returned unchanged to the SQL expression builder (branch kind '{kind}'): the comparison is answered "
        f"differently instead of being rejected",
    )
    # variable operand: must not be replaced by a sample of its domain
    var_q = prog.cls("symbolic.Variable").qual
    lit_q = prog.cls("symbolic.Literal").qual
    for types, body in branches:
        qs = [f.module.resolve(t) for t in types]
        if var_q in qs:
            sample = False
            for c in [c for s in body for c in calls_in(s)]:
                for cq in prog.classes.values():
                    m = cq.methods.get(call_name(c))
                    if m is not None and m.module is f.module:
                        txt = src(m.node)
                        if "next(iter(" in txt and "_domain_" in txt:
                            sample = True
            reached = [n for n in res.get(f"branch:{'|'.join(src(x) for x in types)}", [])]
            r.check(
                not sample, "EQLTranslator._translate_comparator_operand#Variable", site(f), f"Variable branch <- {reached}",
                "a variable operand is joined or rejected",
                f"a plain variable operand ({reached}) is replaced by the first element of its domain: `a.x == b` with b ranging over [5, 1] becomes `x = 5`",
            )
    # (c) quantifier
    f = prog.method(tr.qual, "evaluate", inherited=False)
    tests = [s for s in walk_local(f.node) if isinstance(s, ast.If) and "isinstance(self.quantifier" in src(s.test)]
    last_raise = [s for s in f.node.body if isinstance(s, ast.Raise)]
    ok = len(tests) >= 2 and bool(last_raise) and _classify_body(prog, f, last_raise, "-", err) == "raise"
    r.check(ok, "EQLTranslator.evaluate#quantifier", site(f), "", "The -> one(), An -> all(), anything else rejected", "an unknown quantifier is not rejected with an EQLTranslationError")
    one = any("one()" in src(s) for t in tests if "The" in src(t.test) for s in t.body)
    al = any("all()" in src(s) for t in tests if "An" in src(t.test) for s in t.body)
    r.check(one and al, "EQLTranslator.evaluate#the-one-an-all", site(f), "", "the() fails in SQL exactly when zero or several rows match (Result.one)", "the()/an() are not mapped to one()/all()")
    # (c') what the quantifier demands beyond "which rows": the fields of the quantifier classes that take part in evaluation in memory must
    # be read by the translator (enforced) or rejected.  Found from source: dataclass fields of ResultQuantifier that its evaluation reads.
    rq = prog.cls("symbolic.ResultQuantifier")
    ev_closure, _ = self_closure(prog, rq.qual, prog.lookup(rq.qual, "_evaluate__"), property_reads=True)
    consulted = set()
    for g in ev_closure:
        for n in walk_local(g.node):
            if isinstance(n, ast.Attribute) and isinstance(n.value, ast.Name) and n.value.id == (g.params[0] if g.params else "self") and n.attr in rq.attrs and n.attr != "_child_":
                consulted.add(n.attr)
    tr_closure = set()
    for entry in ("translate", "evaluate"):
        tr_closure |= self_closure(prog, tr.qual, prog.method(tr.qual, entry, inherited=False), property_reads=True)[0]
    read_by_translator = {n.attr for g in tr_closure for n in walk_local(g.node) if isinstance(n, ast.Attribute)}
    for fld in sorted(consulted):
        r.check(fld in read_by_translator, f"EQLTranslator.translate#quantifier-field:{fld}", site(prog.method(tr.qual, "translate", inherited=False)), fld,
                "the translator looks at it (enforces or rejects)",
                f"in-memory evaluation of the quantifier depends on its field `{fld}`, the translator never looks at it: an(entity(...), quantification=AtMost(1)) raises in memory "
                f"when two rows match and returns both rows through SQL")
    # (d) select-like: attributes read from it must exist on every concrete descriptor class
    qod = prog.cls("symbolic.QueryObjectDescriptor")
    descs = [c for c in concrete if prog.is_subclass(c.qual, qod.qual)]
    f = prog.method(tr.qual, "translate", inherited=False)
    seen, _ = self_closure(prog, tr.qual, f, property_reads=True)
    reads: Dict[str, Tuple[FuncInfo, ast.AST]] = {}
    for g in seen:
        for n in walk_local(g.node):
            if isinstance(n, ast.Attribute) and src(n.value) == "self.select_like":
                reads.setdefault(n.attr, (g, n))
    # an entry guard `if not isinstance(self.select_like, T): raise <EQLTranslationError>` narrows the admitted kinds
    admitted = descs
    for s in f.node.body:
        if isinstance(s, ast.If) and isinstance(s.test, ast.UnaryOp) and isinstance(s.test.op, ast.Not) and isinstance(s.test.operand, ast.Call) \
                and src(s.test.operand.func) == "isinstance" and src(s.test.operand.args[0]) == "self.select_like" and _classify_body(prog, f, s.body, "-", err) == "raise":
            t = s.test.operand.args[1]
            qs = [f.module.resolve(x) for x in (t.elts if isinstance(t, ast.Tuple) else [t])]
            admitted = [c for c in descs if any(q in prog.classes and prog.is_subclass(c.qual, q) for q in qs)]
        # statements before the guard that cannot use the select-like (plain assignments of locals) do not end the entry section
        if isinstance(s, (ast.Assign, ast.AnnAssign)) and not any(isinstance(x, ast.Attribute) and src(x).startswith("self.select_like") for x in ast.walk(s)) \
                and not any(isinstance(x, ast.Call) and isinstance(x.func, ast.Attribute) and src(x.func.value) == "self" for x in ast.walk(s)):
            continue
        if not isinstance(s, (ast.If, ast.Expr)):
            break
    for attr, (g, n) in sorted(reads.items()):
        missing = [c.name for c in admitted if prog.lookup(c.qual, attr) is None and prog.lookup_attr(c.qual, attr) is None]
        guarded = any("isinstance(self.select_like" in src(s.test) for s in walk_local(g.node) if isinstance(s, ast.If)) and g is not f
        r.check(
            not missing or guarded, f"EQLTranslator#select_like.{attr}", site(g, n), src(n),
            "defined for every query descriptor kind",
            f"self.select_like.{attr} does not exist on {missing}: translating such a query dies with AttributeError instead of an EQLTranslationError",
        )
    return r


def sql_ops(prog: Program) -> RuleResult:
    r = RuleResult("SQL-OPS", "every comparison operator of the language has a translation; unknown operators are rejected", floor=7)
    comp = prog.cls("symbolic.Comparator")
    fi = comp.attrs.get("operation_name_map")
    if fi is None or not isinstance(fi.value, ast.Dict):
        raise AnalysisError("SQL-OPS: Comparator.operation_name_map vanished")
    ops = [src(k) for k in fi.value.keys]
    om = prog.cls("eql_interface.OperatorMapper")
    f = prog.method(om.qual, "map_comparison_operator", inherited=False)
    err = prog.cls("eql_interface.EQLTranslationError").qual
    body_txt = {}
    for s in f.node.body:
        if isinstance(s, ast.If):
            for o in ops:
                if f"operation is {o}" in src(s.test) and s.body and isinstance(s.body[0], ast.Return):
                    body_txt[o] = s.body[0].value
    sym = {"operator.eq": ast.Eq, "operator.ne": ast.NotEq, "operator.lt": ast.Lt, "operator.le": ast.LtE, "operator.gt": ast.Gt, "operator.ge": ast.GtE}
    L, R = f.params[2], f.params[3]
    for o in ops:
        v = body_txt.get(o)
        if o == "operator.ne":
            # In memory None differs from every value (None != 5 is true); a plain SQL inequality is *unknown* when a side is NULL and leaves
            # the row out.  The translation has to be the null-safe inequality: <column>.is_distinct_from(<other>), whichever side is the
            # column; a plain != is acceptable only as the fallback when neither side can be asked (two Python values).
            branch = next((s_ for s_ in f.node.body if isinstance(s_, ast.If) and f"operation is {o}" in src(s_.test)), None)
            rets = [x.value for x in ast.walk(branch) if isinstance(x, ast.Return) and x.value is not None] if branch is not None else []

            def null_safe(e) -> bool:
                return (isinstance(e, ast.Call) and isinstance(e.func, ast.Attribute) and e.func.attr in ("is_distinct_from", "isnot_distinct_from") and e.func.attr == "is_distinct_from"
                        and len(e.args) == 1 and {src(e.func.value), src(e.args[0])} == {L, R})

            plain = [e for e in rets if isinstance(e, ast.Compare) and isinstance(e.ops[0], ast.NotEq) and src(e.left) == L and src(e.comparators[0]) == R]
            safe = [e for e in rets if null_safe(e)]
            guarded = branch is not None and all(any(isinstance(t, ast.If) and "is_distinct_from" in src(t.test) and t.lineno < e.lineno for t in ast.walk(branch)) for e in plain)
            ok = bool(safe) and len(safe) + len(plain) == len(rets) and guarded
            r.check(ok, f"OperatorMapper.map_comparison_operator#{o}", site(f, branch) if branch is not None else site(f), "; ".join(src(e) for e in rets)[:100], "the null-safe inequality, same operands",
                    f"{o} is translated to {'; '.join(src(e) for e in rets) or 'nothing'}: for a row whose column is NULL a plain SQL inequality is unknown and the row is left out, while in memory "
                    f"None != value holds (entity(o, o.w != 5.0) with an Optional w)")
            continue
        ok = isinstance(v, ast.Compare) and isinstance(v.ops[0], sym.get(o, ())) and src(v.left) == f.params[2] and src(v.comparators[0]) == f.params[3]
        r.check(ok, f"OperatorMapper.map_comparison_operator#{o}", site(f), src(v) if v is not None else "", "same comparison, same operand order",
                f"{o} is translated to {src(v) if v is not None else 'nothing'}: not the same comparison with the same operand order")
    last = [s for s in f.node.body if isinstance(s, ast.Raise)]
    r.check(bool(last) and _classify_body(prog, f, last, "-", err) == "raise", "OperatorMapper.map_comparison_operator#unknown", site(f), "", "unknown operators are rejected", "an unknown operator is not rejected with an EQLTranslationError")
    return r


def sql_varid(prog: Program) -> RuleResult:
    r = RuleResult("SQL-VARID", "the leaf variable of an attribute chain decides the FROM element or is checked against the selected variable", floor=5)
    tr = prog.cls(TR)
    f = prog.method(tr.qual, "translate_attribute", inherited=False)
    seen, _ = self_closure(prog, tr.qual, f, property_reads=False)
    uses_identity = False
    evidence = []
    for g in seen:
        for n in walk_local(g.node):
            # identity test between a chain leaf and the selected variable, or an alias map keyed by the leaf variable
            if isinstance(n, ast.Compare) and any(isinstance(o, (ast.Is, ast.IsNot)) for o in n.ops):
                t = src(n)
                # through one local: selected = self.select_like.selected_variable; leaf is not selected
                for nm in [y.id for y in ast.walk(n) if isinstance(y, ast.Name)]:
                    defs = [st.value for st in walk_local(g.node) if isinstance(st, ast.Assign) and any(isinstance(tg, ast.Name) and tg.id == nm for tg in st.targets)]
                    if len(defs) == 1:
                        t += " " + src(defs[0])
                if "selected_variable" in t and "_type_" not in src(n):
                    uses_identity = True
                    evidence.append(f"{g.short}: {t}")
            if isinstance(n, ast.Subscript) and "alias" in src(n.value).lower() and "_id_" in src(n.slice):
                uses_identity = True
                evidence.append(f"{g.short}: {src(n)}")
    by_type = [g.short for g in seen if "_type_" in src(g.node)]
    r.check(
        uses_identity, "EQLTranslator.translate_attribute#leaf-variable", site(f), f"closure: {sorted(g.short for g in seen)}",
        f"leaf variable identity is used: {evidence}",
        f"the attribute chain is resolved from the leaf's *type* only ({by_type}); the variable itself is never compared with the selected variable nor used to "
        f"pick a FROM element, so `a.x == b.z` with two variables of one class is translated as `T.x = T.z` on the selected row",
    )
    # the attribute-equality join: one FROM element per mapped class means two variables of one mapped hierarchy cannot both be
    # addressed - either each variable gets its own alias, or such a pair is rejected before the join is emitted
    from ..cfg import CFG

    j = next((m for m in tr.methods.values() if any(call_name(c) == "join" for c in calls_in(m.node)) and "equality" in m.name), None)
    if j is None:
        raise AnalysisError("SQL-VARID: the attribute-equality join method vanished")
    cfg = CFG(j.node)
    joins = [c for c in calls_in(j.node) if call_name(c) == "join"]
    err_base = prog.cls("eql_interface.EQLTranslationError").qual
    for jc in joins:
        jn = cfg.node_of(jc)
        per_variable_alias = any(call_name(c) == "aliased" for c in calls_in(j.node))
        guarded = None
        for t in cfg.nodes:
            if t.kind != "test" or not isinstance(t.stmt, ast.If) or not cfg.dominates(t.id, jn):
                continue
            tests = [c for c in ast.walk(t.stmt.test) if isinstance(c, ast.Call) and call_name(c) == "issubclass"]
            names = {n for c in tests for a in c.args for n in [src(a)]}
            raises = [x for b in t.stmt.body for x in ast.walk(b) if isinstance(x, ast.Raise) and x.exc is not None]
            rejects = any(prog.is_subclass(j.module.resolve(x.exc.func if isinstance(x.exc, ast.Call) else x.exc) or "", err_base) for x in raises)
            both_directions = len(tests) >= 2 and len(names) >= 2 and isinstance(t.stmt.test, ast.BoolOp) and isinstance(t.stmt.test.op, ast.Or)
            if rejects and both_directions and t.true_succ is not None and not cfg.dominates(t.true_succ, jn):
                guarded = t
        r.check(
            per_variable_alias or guarded is not None, f"{j.short}#same-hierarchy-join", site(j, jc), src(jc)[:100],
            "a pair of variables of one mapped hierarchy is rejected before the join is emitted" if guarded is not None else "each variable is joined through its own alias",
            "the join target and its ON clause are chosen by mapped class alone: for two variables of the same class the table is joined to itself without an alias "
            "(SQLAlchemy raises InvalidRequestError, not an EQLTranslationError), and for a class and its base the ON clause compares a row with itself (no rows)",
        )
    # (1b) the statement selects FROM the selected variable's table: the join starts there.  An equality between two variables none of which
    #      is the selected one would join one of them with an ON clause over a table that is not in the statement.
    anchor_vars = {t.id for n_ in cfg.nodes if isinstance(n_.stmt, ast.Assign) and "selected_variable" in src(n_.stmt.value) for t in n_.stmt.targets if isinstance(t, ast.Name)}
    # the sides are told apart as *variables*: another variable of the selected variable's class is not the selected variable
    leaf_vars = {t.id for n_ in cfg.nodes if isinstance(n_.stmt, ast.Assign) and any(call_name(c_) == "extract_leaf_variable" for c_ in calls_in(n_.stmt)) for t in n_.stmt.targets if isinstance(t, ast.Name)}
    for jc in joins:
        jn = cfg.node_of(jc)
        guard = None
        for t in cfg.nodes:
            if t.kind != "test" or not isinstance(t.stmt, ast.If) or not cfg.dominates(t.id, jn):
                continue
            tt = t.stmt.test
            cmps = [x for x in ast.walk(tt) if isinstance(x, ast.Compare) and len(x.ops) == 1 and isinstance(x.ops[0], (ast.Is, ast.IsNot, ast.Eq, ast.NotEq)) and ({src(x.left), src(x.comparators[0])} & anchor_vars)]
            others = sorted({(src(x.left) if src(x.comparators[0]) in anchor_vars else src(x.comparators[0])) for x in cmps})
            raises = [x for b in t.stmt.body for x in ast.walk(b) if isinstance(x, ast.Raise) and x.exc is not None]
            rejects = any(prog.is_subclass(j.module.resolve(x.exc.func if isinstance(x.exc, ast.Call) else x.exc) or "", err_base) for x in raises)

            def ev_(e, val):
                if isinstance(e, ast.BoolOp):
                    vs = [ev_(v, val) for v in e.values]
                    return None if any(v is None for v in vs) else (all(vs) if isinstance(e.op, ast.And) else any(vs))
                if isinstance(e, ast.UnaryOp) and isinstance(e.op, ast.Not):
                    v = ev_(e.operand, val)
                    return None if v is None else not v
                if e in cmps:
                    o = src(e.left) if src(e.comparators[0]) in anchor_vars else src(e.comparators[0])
                    same = val[o]
                    return same if isinstance(e.ops[0], (ast.Is, ast.Eq)) else not same
                return None

            # the test holds exactly when neither side is the selected variable's table
            table_ok = len(others) == 2 and all(ev_(tt, {others[0]: a_, others[1]: b_}) == (not a_ and not b_) for a_ in (False, True) for b_ in (False, True))
            table_ok = table_ok and set(others) <= leaf_vars
            if table_ok and rejects and t.true_succ is not None and not cfg.dominates(t.true_succ, jn):
                guard = t
        r.check(per_variable_alias or guard is not None, f"{j.short}#one-side-is-selected", site(j, jc), src(jc)[:100],
                "a pair of variables none of which is the selected one is rejected before the join is emitted",
                "the join takes one variable for the selected one without checking that it *is* that variable (a test on the mapped classes lets a second variable of the selected "
                "variable's class pass for it): for entity(h, hh.world == c.world) the condition is applied to h's own row, for entity(r, f.parent == p.child) the statement compares with a "
                "table that is not in it")
    # (2) the equality is never lost: a path that reports "handled by a JOIN" (returns True) passes the join call; any other non-None
    #     result is the equality itself, and the caller hands it on as a condition
    rets = [n for n in cfg.nodes if isinstance(n.stmt, ast.Return) and n.stmt.value is not None and not (isinstance(n.stmt.value, ast.Constant) and n.stmt.value.value is None)]
    join_nodes = {cfg.node_of(jc) for jc in joins}
    eq_names = {t.id for n in cfg.nodes if isinstance(n.stmt, ast.Assign) and isinstance(n.stmt.value, ast.Compare) and len(n.stmt.value.ops) == 1 and isinstance(n.stmt.value.ops[0], ast.Eq)
                for t in n.stmt.targets if isinstance(t, ast.Name)}
    for i, rn in enumerate(sorted(rets, key=lambda n: n.lineno)):
        v = rn.stmt.value
        if isinstance(v, ast.Constant) and v.value is True:
            p = cfg.path_avoiding(cfg.entry, rn.id, join_nodes)
            r.check(p is None, f"{j.short}#handled-means-joined[{i}]", site(j, rn.stmt), src(rn.stmt), "every path that reports the equality as handled emitted a JOIN with it",
                    f"the path {cfg.describe(p) if p else ''} reports the equality as handled without emitting it: a second equality between two already joined variables is dropped")
        else:
            is_eq = (isinstance(v, ast.Compare) and len(v.ops) == 1 and isinstance(v.ops[0], ast.Eq)) or (isinstance(v, ast.Name) and v.id in eq_names)
            r.check(is_eq, f"{j.short}#condition-returned[{i}]", site(j, rn.stmt), src(rn.stmt), "the equality is handed back as a condition", "a non-join result is not the equality between the two columns")
    caller = next((m for m in tr.methods.values() if m is not j and any(call_name(c) == j.name for c in calls_in(m.node))), None)
    if caller is None:
        raise AnalysisError("SQL-VARID: nothing calls the attribute-equality join method")
    res_names = {t.id for x in walk_local(caller.node) if isinstance(x, ast.Assign) and isinstance(x.value, ast.Call) and call_name(x.value) == j.name for t in x.targets if isinstance(t, ast.Name)}
    hands_on = any(isinstance(x, ast.Return) and isinstance(x.value, ast.Name) and x.value.id in res_names for x in walk_local(caller.node))
    returns_cond = any(not (isinstance(n.stmt.value, ast.Constant) and n.stmt.value.value is True) for n in rets)
    r.check(hands_on or not returns_cond, f"{caller.short}#join-condition-used", site(caller), "", "a condition handed back by the join method becomes part of the WHERE clause",
            "the caller discards what the join method hands back: the equality is lost")
    # (3) a JOIN restricts every row: under a disjunction the equality must be rejected (or kept as a plain condition), never joined
    orf = prog.method(tr.qual, "translate_or", inherited=False)
    marks = set()
    if orf is not None:
        for x in walk_local(orf.node):
            tg = x.target if isinstance(x, ast.AugAssign) else (x.targets[0] if isinstance(x, ast.Assign) else None)
            if tg is not None and is_self_attr(tg):
                marks.add(tg.attr)
    # the mark has to survive nesting: an inner disjunction that finishes must leave it as the enclosing one set it (a counter that is
    # incremented and decremented, or a saved value that is restored) - `self.mark = False` on the way out forgets the enclosing or_
    nesting_safe = set()
    if orf is not None:
        for mk in marks:
            writes = [x for x in walk_local(orf.node) if (isinstance(x, ast.AugAssign) and is_self_attr(x.target, mk)) or (isinstance(x, ast.Assign) and any(is_self_attr(t, mk) for t in x.targets))]
            saved = {t.id for x in walk_local(orf.node) if isinstance(x, ast.Assign) and is_self_attr(x.value, mk) for t in x.targets if isinstance(t, ast.Name)}
            incs = [x for x in writes if isinstance(x, ast.AugAssign) and isinstance(x.op, ast.Add)]
            decs = [x for x in writes if isinstance(x, ast.AugAssign) and isinstance(x.op, ast.Sub)]
            restores = [x for x in writes if isinstance(x, ast.Assign) and isinstance(x.value, ast.Name) and x.value.id in saved]
            consts = [x for x in writes if isinstance(x, ast.Assign) and isinstance(x.value, ast.Constant)]
            if (incs and decs and not consts) or (restores and len(consts) <= 1):
                nesting_safe.add(mk)
    for jc in joins:
        jn = cfg.node_of(jc)
        guarded = False
        for t in cfg.nodes:
            if t.kind == "test" and isinstance(t.stmt, ast.If) and cfg.dominates(t.id, jn) and any(is_self_attr(x) and x.attr in nesting_safe for x in ast.walk(t.stmt.test)):
                raises = [x for b in t.stmt.body for x in ast.walk(b) if isinstance(x, ast.Raise) and x.exc is not None]
                if any(prog.is_subclass(j.module.resolve(x.exc.func if isinstance(x.exc, ast.Call) else x.exc) or "", err_base) for x in raises) and t.true_succ is not None and not cfg.dominates(t.true_succ, jn):
                    guarded = True
        r.check(guarded, f"{j.short}#no-join-under-or", site(j, jc), src(jc)[:100], f"rejected while a disjunction is being translated (nesting-safe mark {sorted(nesting_safe)})",
                "the equality is turned into an inner JOIN even inside a disjunction: the JOIN restricts every row and the equality disappears from the OR "
                "(or_(f.parent == p.child, f.child.name == 'H1') returns nothing)")
    # (3b) the join is built from the *last* attribute of each side and the table of the variable the chain starts from: whatever lies in
    # between (d.handle in d.handle.world == h.world) is not in the ON clause. A longer chain is walked, or rejected.
    last_only = any(isinstance(x, ast.Attribute) and x.attr == "_attr_name_" for x in walk_local(j.node))
    walks = any(call_name(c) in ("_walk_attribute_chain", "_collect_attribute_chain", "translate_attribute") for c in calls_in(j.node))
    rejects_chain = False
    for t in cfg.nodes:
        if t.kind == "test" and isinstance(t.stmt, ast.If) and any(isinstance(x, ast.Attribute) and x.attr == "_child_" for x in ast.walk(t.stmt.test)) \
                and any(isinstance(c, ast.Call) and call_name(c) == "isinstance" for c in ast.walk(t.stmt.test)):
            raises = [x for b in t.stmt.body for x in ast.walk(b) if isinstance(x, ast.Raise) and x.exc is not None]
            if any(prog.is_subclass(j.module.resolve(x.exc.func if isinstance(x.exc, ast.Call) else x.exc) or "", err_base) for x in raises):
                rejects_chain = True
    r.check((not last_only) or walks or rejects_chain, f"{j.short}#chain-not-dropped", site(j), "", "a relationship at the end of a longer chain is walked or rejected",
            "the join takes the last attribute name of each side and the table of the variable the chain starts from: d.handle.world == h.world is joined as d.world == h.world "
            "(different rows whenever a drawer's handle lives in another world than the drawer)")
    # (4) the mark only means something while it is raised: the operands of the disjunction are translated *inside* the window between
    # raising and lowering it - by calls that run their callee then and there (a generator function, a generator expression or a lambda only
    # promise the work; it happens when the result is consumed, after the mark has been lowered)
    if orf is not None and nesting_safe:
        ocfg = CFG(orf.node)
        for mk in sorted(nesting_safe):
            ups = [n for n in ocfg.nodes if n.kind == "stmt" and ((isinstance(n.stmt, ast.AugAssign) and is_self_attr(n.stmt.target, mk) and isinstance(n.stmt.op, ast.Add))
                                                                or (isinstance(n.stmt, ast.Assign) and any(is_self_attr(t, mk) for t in n.stmt.targets) and isinstance(n.stmt.value, ast.Constant) and n.stmt.value.value))]
            downs = [n for n in ocfg.nodes if n.kind == "stmt" and n not in ups and ((isinstance(n.stmt, ast.AugAssign) and is_self_attr(n.stmt.target, mk))
                                                                                  or (isinstance(n.stmt, ast.Assign) and any(is_self_attr(t, mk) for t in n.stmt.targets)))]
            if not ups or not downs:
                continue
            inside = [n for n in ocfg.nodes if n.stmt is not None and n.kind in ("stmt", "test", "for") and any(ocfg.dominates(u.id, n.id) and u.id != n.id for u in ups)
                      and not any(ocfg.dominates(d.id, n.id) for d in downs)]
            target = prog.method(tr.qual, "translate_query", inherited=False)

            def eager_reach(fn, seen=()):
                """fn runs translate_query before it returns"""
                if fn is None or fn in seen or fn.is_generator:
                    return False
                lazy_spans = []
                for x in walk_local(fn.node):
                    if isinstance(x, (ast.GeneratorExp,)):
                        lazy_spans.append(x)
                for c in calls_in(fn.node):
                    if any(c in list(ast.walk(g)) for g in lazy_spans if not _materialised(fn.node, g)):
                        continue
                    if isinstance(c.func, ast.Attribute) and is_self_attr(c.func):
                        t = prog.method(tr.qual, c.func.attr)
                        if t is target or eager_reach(t, seen + (fn,)):
                            return True
                return False

            def call_is_eager(n, c):
                if not (isinstance(c.func, ast.Attribute) and is_self_attr(c.func)):
                    return False
                t = prog.method(tr.qual, c.func.attr)
                if t is None:
                    return False
                if t is target or eager_reach(t):
                    return True
                # a generator function whose result is materialised on the spot
                if t.is_generator and any(isinstance(p, ast.Call) and isinstance(p.func, ast.Name) and p.func.id in ("list", "tuple", "sorted") and c in p.args
                                          for part in ocfg._own_parts(n) for p in ast.walk(part)):
                    return any((isinstance(cc.func, ast.Attribute) and is_self_attr(cc.func) and (prog.method(tr.qual, cc.func.attr) is target or eager_reach(prog.method(tr.qual, cc.func.attr))))
                               for cc in calls_in(t.node))
                return False

            ok = any(call_is_eager(n, c) for n in inside for part in ocfg._own_parts(n) for c in calls_in(part))
            r.check(ok, f"translate_or#operands-translated-while-{mk}-is-raised", site(orf, ups[0].stmt), f"{len(inside)} statement(s) between raising and lowering",
                    "the operands are translated by an eager call inside the window",
                    f"nothing between raising and lowering {mk} actually translates the operands (the call only creates a generator / lazy sequence that is consumed after the mark has "
                    "been lowered): an attribute equality inside or_(...) is then met with the mark down and turned into an INNER JOIN for every row instead of being rejected")
    return r


def _materialised(fn_node, gen) -> bool:
    """the generator expression is the argument of a call that consumes it at once"""
    for x in ast.walk(fn_node):
        if isinstance(x, ast.Call) and isinstance(x.func, ast.Name) and x.func.id in ("list", "tuple", "sorted", "set", "any", "all", "sum", "dict", "frozenset") and gen in x.args:
            return True
    return False


def sql_alias(prog: Program) -> RuleResult:
    """Joined relationship paths are remembered per FROM element (class or alias) they start from: a key derived from
    the mapped class conflates two paths that reach the same class through different relationships."""
    r = RuleResult("SQL-ALIAS", "the join cache distinguishes the FROM element a relationship path starts from", floor=3)
    jm = prog.cls("eql_interface.JoinManager")
    for mname in ("add_path_join", "is_path_joined", "get_alias_for_path"):
        f = prog.method(jm.qual, mname, inherited=False)
        keys = []
        for n in walk_local(f.node):
            if isinstance(n, ast.Subscript) and "aliases_by_path" in src(n.value):
                keys.append(n.slice)
            if isinstance(n, ast.Call) and call_name(n) == "get" and "aliases_by_path" in src(n.func) and n.args:
                keys.append(n.args[0])
            if isinstance(n, ast.Compare) and any(isinstance(o, (ast.In, ast.NotIn)) for o in n.ops) and "aliases_by_path" in src(n.comparators[0]):
                keys.append(n.left)
        ok = bool(keys)
        shown = ""
        for k in keys:
            shown = src(k)
            # inline a helper that builds the key
            if isinstance(k, ast.Call) and isinstance(k.func, ast.Attribute) and k.func.attr in jm.methods:
                h = jm.methods[k.func.attr]
                rets = [x.value for x in walk_local(h.node) if isinstance(x, ast.Return) and x.value is not None]
                hp = h.params if h.is_staticmethod else h.params[1:]
                sub = dict(zip(hp, [src(a) for a in k.args]))
                if len(rets) == 1 and isinstance(rets[0], ast.Tuple):
                    elts = [sub.get(src(e), "<derived:" + src(e) + ">") for e in rets[0].elts]
                else:
                    elts = ["<derived>"]
            elif isinstance(k, ast.Tuple):
                elts = [src(e) for e in k.elts]
            else:
                elts = ["<derived:" + src(k) + ">"]
            params = f.params[1:]
            ok = ok and len(elts) == 2 and elts[0] == params[0] and elts[1] == params[1]
        r.check(ok, f"JoinManager.{mname}#key", site(f), shown, "keyed by (the FROM element itself, relationship name)",
                "the path key is not (the FROM element as given, relationship name): two chains that reach the same mapped class through different relationships share one alias, "
                "and conditions on them are translated against the same joined table")
    tr = prog.cls(TR)
    f = prog.method(tr.qual, "_walk_attribute_chain", inherited=False)
    ok = any(isinstance(n, ast.Assign) and src(n.targets[0]) == "current_dao" and "alias" in src(n.value) for n in walk_local(f.node))
    r.check(ok, "EQLTranslator._walk_attribute_chain#continues-from-alias", site(f), "", "the chain continues from the alias that was joined", "the chain does not continue from the joined alias")
    # "this table is in the statement" is recorded for exactly the FROM element that was joined: a relationship path joins an *alias* of the
    # target class, which stands for that path only - recording the class itself as joined makes an equality with a variable of that class
    # a plain condition on a table that is not in the statement (or on the path's rows), instead of the JOIN the variable needs
    n = 0
    for g in sorted(tr.methods.values(), key=lambda x: x.qual):
        for c in calls_in(g.node):
            if call_name(c) == "add_table_join" and c.args:
                n += 1
                what = src(c.args[0])
                joined = [src(j.args[0]) for j in calls_in(g.node) if call_name(j) in ("join", "outerjoin") and j.args and "sql_query" in src(j.func)]
                r.check(what in joined, f"{g.short}#table-join-record-matches-the-join", site(g, c), src(c)[:80], f"{what} is what the statement joined in this method",
                        f"{g.short} records {what} as joined while the statement joined {joined or 'nothing'}: the alias of a relationship path (d.handle) is taken for the table of "
                        "a variable (h = let(Handle, ...)), so entity(d, d.handle.size > 1, d.world == h.world) gets no JOIN for h and loses the rows h multiplies - with the two "
                        "conditions swapped the answer is right")
    if n == 0:
        raise AnalysisError("SQL-ALIAS: the translator never records a table as joined (add_table_join)")
    return r


# SQLAlchemy Result / Select API by its effect on the number of rows
ROW_STRICT_ONE = {"one", "scalar_one"}  # raise for zero rows and for more than one row
ROW_ALL = {"all", "fetchall"}
ROW_COLLAPSING = {"unique", "distinct", "group_by"}  # several identical rows become one
ROW_LIMITING = {"first", "limit", "fetchone", "fetchmany", "one_or_none", "scalar_one_or_none", "scalar", "offset", "slice", "partitions"}
ROW_NEUTRAL = {"scalars", "where", "filter", "join", "outerjoin", "select_from", "options", "order_by", "execute", "select", "mappings"}


def _chain(e: ast.expr) -> Tuple[List[str], ast.expr]:
    """method names applied, innermost first, and the expression the chain starts from"""
    names = []
    while isinstance(e, ast.Call) and isinstance(e.func, ast.Attribute):
        names.append(e.func.attr)
        e = e.func.value
    return names[::-1], e


def sql_fetch(prog: Program) -> RuleResult:
    r = RuleResult("SQL-FETCH", "the(...) fails on the database exactly when the statement returns no row or more than one", floor=3)
    tr = prog.cls(TR)
    f = prog.method(TR, "evaluate", inherited=False)
    if f is None:
        raise AnalysisError("SQL-FETCH: EQLTranslator.evaluate vanished")
    local = {}
    for x in walk_local(f.node):
        if isinstance(x, ast.Assign) and len(x.targets) == 1 and isinstance(x.targets[0], ast.Name):
            local.setdefault(x.targets[0].id, []).append(x.value)

    def full_chain(e):
        names, base = _chain(e)
        seen = 0
        while isinstance(base, ast.Name) and len(local.get(base.id, [])) == 1 and seen < 5:
            n2, base = _chain(local[base.id][0])
            names = n2 + names
            seen += 1
        return names, base

    found = {}
    for st in walk_local(f.node):
        if not isinstance(st, ast.If):
            continue
        t = st.test
        if isinstance(t, ast.Call) and call_name(t) == "isinstance" and len(t.args) == 2 and "quantifier" in src(t.args[0]):
            q = src(t.args[1])
            rets = [n for b in st.body for n in ast.walk(b) if isinstance(n, ast.Return) and n.value is not None]
            for ret in rets:
                found[q] = (ret, full_chain(ret.value))
    if "The" not in found or "An" not in found:
        raise AnalysisError(f"SQL-FETCH: evaluate() no longer dispatches on the quantifier classes The / An (found {sorted(found)})")
    for q, (ret, (names, base)) in sorted(found.items()):
        unknown = [n for n in names if n not in ROW_STRICT_ONE | ROW_ALL | ROW_COLLAPSING | ROW_LIMITING | ROW_NEUTRAL]
        if unknown:
            raise AnalysisError(f"SQL-FETCH: result method(s) {unknown} are not in the row-effect table of the checker")
        lossy = [n for n in names if n in ROW_COLLAPSING | ROW_LIMITING]
        if q == "The":
            ok = bool(names) and names[-1] in ROW_STRICT_ONE and not lossy
            why = (f"the rows are fetched with {'.'.join(names)}: " + (f"{lossy} collapses or limits the rows before they are counted" if lossy else "the last call does not insist on exactly one row")
                   + "; in memory the(...) counts every binding, so a query whose entity is matched through two join partners raises MultipleSolutionFound there and returns one row here")
        else:
            ok = bool(names) and names[-1] in ROW_ALL and not [n for n in lossy if n in ROW_LIMITING]
            why = f"an(...) fetches with {'.'.join(names)}: {lossy} drops rows"
        r.check(ok, f"EQLTranslator.evaluate#{q}", site(f, ret), src(ret.value), f"rows fetched with {'.'.join(names)}", why)
    # the statement itself: every re-assignment of the statement keeps the row multiset
    n_stmt = 0
    for g in tr.methods.values():
        for x in walk_local(g.node):
            if isinstance(x, ast.Assign) and any(is_self_attr(t) and t.attr == "sql_query" for t in x.targets):
                names, base = _chain(x.value)
                n_stmt += 1
                unknown = [n for n in names if n not in ROW_STRICT_ONE | ROW_ALL | ROW_COLLAPSING | ROW_LIMITING | ROW_NEUTRAL]
                if unknown:
                    raise AnalysisError(f"SQL-FETCH: statement method(s) {unknown} are not in the row-effect table of the checker")
                lossy = [n for n in names if n in ROW_COLLAPSING | ROW_LIMITING]
                r.check(not lossy, f"{g.short}#statement", site(g, x), src(x.value)[:100], "statement built from select / where / join only",
                        f"the statement is built with {lossy}, which collapses or limits rows: the(...) no longer sees how many bindings satisfy the query")
    if n_stmt < 2:
        raise AnalysisError("SQL-FETCH: fewer than two assignments to the statement found (select + where/join are the confirmed instances)")
    return r


# SQLAlchemy column operators with pattern semantics (LIKE / regular expressions): case-insensitive on SQLite, and "_" / "%" in the
# operand act as wildcards unless escaped. `x in text` in memory is an exact, case-sensitive substring test.
PATTERN_OPS = {"contains", "icontains", "like", "ilike", "notlike", "startswith", "endswith", "istartswith", "iendswith", "regexp_match", "match", "op"}


def sql_membership(prog: Program) -> RuleResult:
    r = RuleResult("SQL-MEMBERSHIP", "substring membership is translated with an exact substring operator, never with a LIKE pattern", floor=2)
    om = prog.cls("eql_interface.OperatorMapper")
    f = prog.method(om.qual, "map_contains_operator", inherited=False)
    if f is None:
        raise AnalysisError("SQL-MEMBERSHIP: OperatorMapper.map_contains_operator vanished")
    n_expr = 0
    for st in walk_local(f.node):
        if not (isinstance(st, (ast.Assign, ast.Return)) and st.value is not None):
            continue
        leaves, todo = [], [st.value]
        while todo:  # the branches of a conditional expression are separate translations
            x = todo.pop()
            if isinstance(x, ast.IfExp):
                todo += [x.orelse, x.body]
            else:
                leaves.append(x)
        for leaf in leaves:
            calls = [c for c in ast.walk(leaf) if isinstance(c, ast.Call) and isinstance(c.func, ast.Attribute)]
            if not calls and not isinstance(leaf, ast.Call):
                continue
            n_expr += 1
            pat = [c for c in calls if c.func.attr in PATTERN_OPS and not (isinstance(c.func.value, ast.Name) and c.func.value.id == "func")]
            autoescaped = [c for c in pat if any(k.arg == "autoescape" and getattr(k.value, "value", None) is True for k in c.keywords)]
            bad = [c for c in pat if c not in autoescaped]
            r.check(not bad, f"OperatorMapper.map_contains_operator#expr-{n_expr}", site(f, st), src(leaf)[:100],
                    "built from in_ / instr / literal: exact membership",
                    f"{src(bad[0])[:80] if bad else ''} is a LIKE pattern: it ignores case on SQLite and reads '_' and '%' in the searched text as wildcards, so the statement selects "
                    f"rows for which in-memory `text in value` is false")
    if n_expr < 3:
        raise AnalysisError("SQL-MEMBERSHIP: fewer than three membership translations found in map_contains_operator")
    # IN (...) is built from *all* values of the literal collection: 0, '', False and NULL-free falsy values are members like any other.
    tr = prog.cls(TR)
    n_in = 0
    for m in sorted(tr.methods.values(), key=lambda x: x.qual):
        for c in [c for c in calls_in(m.node) if isinstance(c.func, ast.Attribute) and c.func.attr in ("in_", "not_in") and c.args]:
            n_in += 1
            seen_names, todo, exprs = set(), [c.args[0]], []
            while todo:
                e = todo.pop()
                exprs.append(e)
                for nm in [x.id for x in ast.walk(e) if isinstance(x, ast.Name)]:
                    if nm in seen_names:
                        continue
                    seen_names.add(nm)
                    todo += [a.value for a in walk_local(m.node) if isinstance(a, ast.Assign) and any(isinstance(t, ast.Name) and t.id == nm for t in a.targets)]
            bad = None
            for e in exprs:
                for x in ast.walk(e):
                    if isinstance(x, ast.Call) and isinstance(x.func, ast.Name) and x.func.id in ("filter", "compress", "takewhile", "dropwhile"):
                        bad = bad or x
                    if isinstance(x, (ast.ListComp, ast.SetComp, ast.GeneratorExp)) and any(g.ifs for g in x.generators):
                        # leaving None out of the list is right when the missing value is spelled out next to it (IN never matches NULL)
                        only_none = all(isinstance(t, ast.Compare) and len(t.ops) == 1 and isinstance(t.ops[0], ast.IsNot) and isinstance(t.comparators[0], ast.Constant) and t.comparators[0].value is None
                                        for g in x.generators for t in g.ifs)
                        spelled = any(isinstance(y, ast.Call) and isinstance(y.func, ast.Attribute) and y.func.attr in ("is_", "is_not", "isnot") and y.args and isinstance(y.args[0], ast.Constant) and y.args[0].value is None
                                      for y in walk_local(m.node))
                        if not (only_none and spelled):
                            bad = bad or x
                    if isinstance(x, ast.Subscript) and isinstance(x.slice, ast.Slice):
                        bad = bad or x
                    if isinstance(x, ast.BinOp) and isinstance(x.op, (ast.Sub, ast.BitAnd)):
                        bad = bad or x
            for st in walk_local(m.node):
                if isinstance(st, ast.Call) and isinstance(st.func, ast.Attribute) and st.func.attr in ("remove", "discard", "pop", "difference_update", "clear") and isinstance(st.func.value, ast.Name) and st.func.value.id in seen_names:
                    bad = bad or st
            r.check(bad is None, f"{m.short}#in-list-complete[{n_in}]", site(m, bad if bad is not None else c), src(c)[:80], "every value of the collection reaches IN (...)",
                    f"the values handed to {c.func.attr}() pass through `{src(bad)[:60] if bad is not None else ''}`, which can drop members (filter(None, ...) drops 0, 0.0, False and ''): "
                    "in_(p.x, [0, 2]) selects the rows with x = 2 only, in memory both")
    if n_in < 1:
        raise AnalysisError("SQL-MEMBERSHIP: the translator no longer builds an IN (...) expression")
    # In memory None is a member of a collection that holds None, and of no other; `col IN (..., NULL)` never matches NULL and
    # `col NOT IN (...)` is unknown for it.  Where the translator builds IN / NOT IN from a literal collection it spells the missing value out.
    for m in sorted(tr.methods.values(), key=lambda x: x.qual):
        ins = [c for c in calls_in(m.node) if isinstance(c.func, ast.Attribute) and c.func.attr in ("in_", "not_in") and c.args]
        if not ins:
            continue
        nulls = [y for y in walk_local(m.node) if isinstance(y, ast.Call) and isinstance(y.func, ast.Attribute) and y.func.attr in ("is_", "is_not", "isnot") and y.args and isinstance(y.args[0], ast.Constant) and y.args[0].value is None]
        r.check(bool(nulls), f"{m.short}#missing-value-spelled-out", site(m, ins[0]), src(ins[0])[:80], "the membership of None is translated with IS NULL / IS NOT NULL next to IN",
                f"`{src(ins[0])[:60]}` is the whole translation: in_(o.w, [5.0, None]) selects the objects without w in memory and leaves their rows out in SQL (IN never matches NULL); "
                "not-in is unknown for NULL rows likewise")
    return r


def sql_chain(prog: Program) -> RuleResult:
    """(a) The base of an attribute chain: the walk over Attribute nodes stops at some node; if that node is another kind of domain mapping
    (index, call, flatten) there is no column or relationship for the step and the chain must be rejected. (b) Collection literals: every
    builtin collection kind that membership accepts in memory (list, tuple, set, frozenset) is unwrapped before it becomes IN (...)."""
    r = RuleResult("SQL-CHAIN", "attribute chains start at a variable; collection literals of every kind are unwrapped", floor=3)
    tr = prog.cls(TR)
    err_base = prog.cls("eql_interface.EQLTranslationError").qual
    dm = prog.cls("symbolic.DomainMapping")
    attr = prog.cls("symbolic.Attribute")
    steps = [c for c in prog.subclasses(dm.qual, strict=True) if not prog.is_abstract_class(c.qual) and not prog.is_subclass(c.qual, attr.qual)]
    if len(steps) < 3:
        raise AnalysisError("SQL-CHAIN: fewer than three non-attribute domain mappings found (Index, Call, Flatten are the confirmed instances)")
    walkers = [m for m in tr.methods.values() if any(isinstance(x, ast.While) and "Attribute" in src(x.test) and "isinstance" in src(x.test) for x in walk_local(m.node)) and
               any(isinstance(x, ast.Attribute) and x.attr == "_type_" for x in walk_local(m.node))]
    if not walkers:
        raise AnalysisError("SQL-CHAIN: the method that finds the base of an attribute chain vanished")
    for m in walkers:
        rejected = set()
        for st in walk_local(m.node):
            if isinstance(st, ast.If) and any(isinstance(x, ast.Raise) and x.exc is not None and prog.is_subclass(m.module.resolve(x.exc.func if isinstance(x.exc, ast.Call) else x.exc) or "", err_base) for b in st.body for x in ast.walk(b)):
                for c in [x for x in ast.walk(st.test) if isinstance(x, ast.Call) and call_name(x) == "isinstance" and len(x.args) == 2]:
                    kinds = c.args[1].elts if isinstance(c.args[1], ast.Tuple) else [c.args[1]]
                    for k in kinds:
                        q = m.module.resolve(k)
                        rejected |= {x.name for x in steps if q and prog.is_subclass(x.qual, q)}
        missing = sorted({x.name for x in steps} - rejected)
        r.check(not missing, f"{m.short}#chain-base", site(m), f"non-attribute steps: {sorted(x.name for x in steps)}", "a chain whose base is an index / call / flatten step is rejected",
                f"an attribute chain whose base is {missing} is translated from the type of that step alone: w.bodies[0].name == 'B' becomes select(WorldDAO).where(BodyDAO.name == 'B'), "
                f"a cross join that selects rows in-memory evaluation rejects")
    want = {"list", "tuple", "set", "frozenset"}
    n = 0
    for m in list(tr.methods.values()) + list(prog.cls("eql_interface.OperatorMapper").methods.values()):
        if "contains" not in m.name:
            continue
        for c in [x for x in ast.walk(m.node) if isinstance(x, ast.Call) and call_name(x) == "isinstance" and len(x.args) == 2 and isinstance(x.args[1], ast.Tuple)]:
            names = {src(k) for k in c.args[1].elts}
            if names & want and len(names & want) >= 2:
                n += 1
                r.check(want - {"frozenset"} <= names, f"{m.short}#collection-kinds[{n}]", site(m, c), src(c), "lists, tuples and sets are treated as collections of values",
                        f"{src(c)} recognises {sorted(names & want)} only: in_(b.name, {{'A', 'C'}}) hands the set itself to the database driver")
    if n < 2:
        raise AnalysisError("SQL-CHAIN: fewer than two collection-kind tests found in the membership translation")
    return r


def sql_state(prog: Program) -> RuleResult:
    """The bookkeeping of a translation (which paths are joined under which alias) belongs to one statement.  A default argument is
    evaluated once, when the function is defined: a default that constructs an object is shared by every call that omits it, so the
    second translation finds the first one's joins 'already made' and refers to aliases that are not in its FROM clause."""
    r = RuleResult("SQL-STATE", "no state is shared between translations through default arguments or class attributes", floor=5)
    tr = prog.cls(TR)
    mod = tr.module
    n = 0
    for f in sorted([f for f in prog.functions.values() if f.module is mod], key=lambda x: x.qual):
        a = f.node.args
        defaults = list(a.defaults) + [d for d in a.kw_defaults if d is not None]
        n += 1
        bad = None
        for d in defaults:
            if isinstance(d, (ast.List, ast.Dict, ast.Set, ast.ListComp, ast.DictComp, ast.SetComp)):
                bad = bad or d
            if isinstance(d, ast.Call):
                q = mod.resolve(d.func) if isinstance(d.func, (ast.Name, ast.Attribute)) else None
                immutable = isinstance(d.func, ast.Name) and d.func.id in ("frozenset", "tuple", "int", "str", "float", "bool", "bytes")
                if not immutable:
                    bad = bad or d
        r.check(bad is None, f"{f.short}#defaults", site(f, bad) if bad is not None else site(f), src(bad)[:60] if bad is not None else f"{len(defaults)} default(s)",
                "defaults are constants", f"the default `{src(bad) if bad is not None else ''}` is built once and shared by all calls that omit the argument: what one translation records "
                "(joined paths, aliases) is seen by the next, which then skips a JOIN and selects from an alias that is not in its statement (cartesian product)")
    # class-level mutable attributes of the translator and its helpers (dataclass fields must use default_factory)
    for c in [c for c in prog.classes.values() if c.module is mod]:
        for an, fi in c.attrs.items():
            v = getattr(fi, "value", None)
            if v is None:
                continue
            if fi.is_classvar:
                # a class-level constant table is fine; an instance of one of the module's own (stateful) classes is not
                q = mod.resolve(v.func) if isinstance(v, ast.Call) and isinstance(v.func, (ast.Name, ast.Attribute)) else None
                shared = q in prog.classes and prog.classes[q].module is mod
            else:
                shared = isinstance(v, (ast.List, ast.Dict, ast.Set)) or (isinstance(v, ast.Call) and not (isinstance(v.func, ast.Name) and v.func.id == "field"))
            r.check(not shared, f"{c.name}.{an}#per-instance", c.loc, src(v)[:60], "per-instance (constant or default_factory)",
                    f"{c.name}.{an} = {src(v)[:40]} is one object for all instances")
    if n < 5:
        raise AnalysisError("SQL-STATE: the translator module has fewer than 5 functions")
    return r


def sql_exact_dao(prog: Program) -> RuleResult:
    """A variable whose type has no DAO of its own cannot be answered from the database: the translator rejects it (MissingDAOError) because
    get_dao_class finds nothing. That holds only while the lookup is *exact*: the DAO whose original class is the given class (or its
    alternative mapping), not the DAO of a base class - a query over an unmapped subclass of a mapped class answered from the base's table
    returns every row of the base where in-memory evaluation over persisted objects has no solution at all."""
    r = RuleResult("SQL-EXACT-DAO", "a class is answered from the database only through the DAO mapped for exactly that class", floor=1)
    f = prog.functions.get("krrood.ormatic.dao.get_dao_class")
    if f is None:
        raise AnalysisError("SQL-EXACT-DAO: krrood.ormatic.dao.get_dao_class vanished")
    p = f.params[0]
    cmps = [x for x in walk_local(f.node) if isinstance(x, ast.Compare) and any(isinstance(y, ast.Call) and call_name(y) == "original_class" for y in ast.walk(x))]
    if not any(isinstance(y, ast.Call) and call_name(y) == "original_class" for y in walk_local(f.node)):
        raise AnalysisError("SQL-EXACT-DAO: get_dao_class no longer consults a DAO's original class")
    # what the parameter may be re-bound to: its alternative mapping only
    rebinds = [x.value for x in walk_local(f.node) if isinstance(x, ast.Assign) and any(isinstance(t, ast.Name) and t.id == p for t in x.targets)]
    rebinds += [x.iter for x in walk_local(f.node) if isinstance(x, (ast.For, ast.comprehension)) and any(isinstance(t, ast.Name) and t.id == p for t in ast.walk(x.target))]
    why = None
    for x in cmps:
        other = [o for o in [x.left] + list(x.comparators) if not any(isinstance(y, ast.Call) and call_name(y) == "original_class" for y in ast.walk(o))]
        if len(x.ops) != 1 or not isinstance(x.ops[0], (ast.Eq, ast.Is)) or len(other) != 1 or not (isinstance(other[0], ast.Name) and other[0].id == p):
            why = why or f"the DAO is chosen by `{src(x)[:60]}`"
    for v in rebinds:
        if not (isinstance(v, ast.Call) and call_name(v) == "get_alternative_mapping"):
            why = why or f"the class looked up is re-bound to `{src(v)[:50]}`"
    for y in walk_local(f.node):
        if (isinstance(y, ast.Attribute) and y.attr in ("__mro__", "__bases__", "__base__")) or (isinstance(y, ast.Call) and call_name(y) in ("mro", "issubclass", "getmro")):
            why = why or f"the lookup walks the class hierarchy ({src(y)[:40]})"
    if not cmps:
        why = why or "the DAO's original class is not compared with the given class"
    r.check(why is None, "get_dao_class#exact-class", site(f), src(cmps[0])[:80] if cmps else "", "the DAO whose original class is exactly the given class (or its alternative mapping)",
            f"{why}: a class without a DAO of its own (an unmapped subclass of a mapped class) is answered from the table of its base - eql_to_sql accepts the query and returns "
            "the base class's rows, in memory it has no solutions over persisted objects; to_dao stores such an object as an instance of the base")
    return r


def sql_clause_truth(prog: Program) -> RuleResult:
    """What the translator's methods hand back may be a SQLAlchemy expression. The truth of such an object is not "is there something":
    `bool(a == b)` compares the two sides (True when both are the same column - the inherited relationship of two sibling classes - an
    error or False otherwise). Results of translating methods are therefore told apart with `is True` / `is None` / `is not None`, never by
    their truth."""
    r = RuleResult("SQL-CLAUSE-TRUTH", "results of translating methods are never tested for truth", floor=3)
    tr = prog.cls(TR)
    producers = {n for n, m in tr.methods.items() if n.startswith(("translate_", "_translate_", "_handle_", "_combine_")) and m.node.returns is not None
                 and not ast.unparse(m.node.returns).strip() in ("bool", "None", "List[Any]", "List[str]")}
    n = 0
    for g in sorted(tr.methods.values(), key=lambda x: x.qual):
        clause = set()
        for x in walk_local(g.node):
            if isinstance(x, ast.Assign) and isinstance(x.value, ast.Call) and isinstance(x.value.func, ast.Attribute) and is_self_attr(x.value.func) and x.value.func.attr in producers:
                clause |= {t.id for t in x.targets if isinstance(t, ast.Name)}
            if isinstance(x, (ast.For, ast.comprehension)) and isinstance(x.target, ast.Name) and isinstance(x.iter, ast.Name) and x.iter.id in ("parts",):
                pass
        if not clause:
            continue
        n += 1

        def operands(t):
            if isinstance(t, ast.BoolOp):
                for v in t.values:
                    yield from operands(v)
            elif isinstance(t, ast.UnaryOp) and isinstance(t.op, ast.Not):
                yield from operands(t.operand)
            else:
                yield t

        bad = None
        for x in walk_local(g.node):
            tests = []
            if isinstance(x, (ast.If, ast.While, ast.IfExp)):
                tests.append(x.test)
            if isinstance(x, ast.comprehension):
                tests += x.ifs
            if isinstance(x, ast.UnaryOp) and isinstance(x.op, ast.Not):
                tests.append(x.operand)
            if isinstance(x, ast.Call) and isinstance(x.func, ast.Name) and x.func.id == "bool" and x.args:
                tests.append(x.args[0])
            for t in tests:
                for o in operands(t):
                    if isinstance(o, ast.Name) and o.id in clause:
                        bad = bad or (x, o)
        r.check(bad is None, f"{g.short}#no-truth-test:{'+'.join(sorted(clause))}", site(g, bad[0]) if bad else site(g), src(bad[0])[:80].replace("\n", " ") if bad else "",
                "translation results are compared with `is`",
                f"{bad[1].id if bad else ''} may be a SQLAlchemy expression and is tested for truth: the truth of `fk_a == fk_b` is whether both sides are the same column - for the same "
                "inherited relationship on two sibling classes (f.child == p.child) the second join condition counts as 'handled by a JOIN' and disappears from the statement")
    if n < 3:
        raise AnalysisError(f"SQL-CLAUSE-TRUTH: only {n} translator methods hold results of translating methods in locals")
    return r


def sql_cond_attr(prog: Program) -> RuleResult:
    """An attribute may stand as a condition itself (entity(b, b.name), and_(b.size > 0, b.active)).  In memory it holds where the value is true
    in Python: non-empty text, a non-zero number, True.  `WHERE <column>` means that only for a boolean column - a text column is read as a
    number ('C1' is false, '7' is true).  So where the translator dispatches on the kind of *condition*, an attribute does not go out as the
    bare column unless the column is known to be boolean; other types are compared with their empty value or rejected."""
    r = RuleResult("SQL-COND-ATTR", "an attribute in condition position is translated by the Python truth of its value", floor=2)
    tr = prog.cls(TR)
    tq = prog.method(tr.qual, "translate_query", inherited=False)
    err = prog.cls("eql_interface.EQLTranslationError").qual
    branch = [t for t in walk_local(tq.node) if isinstance(t, ast.If) and "isinstance" in src(t.test) and "Attribute" in src(t.test)]
    if not branch:
        raise AnalysisError("SQL-COND-ATTR: translate_query no longer dispatches on Attribute")
    rets = [x for st in branch[0].body for x in ast.walk(st) if isinstance(x, ast.Return) and x.value is not None]
    raises = [x for st in branch[0].body for x in ast.walk(st) if isinstance(x, ast.Raise)]
    direct = [x for x in rets if isinstance(x.value, ast.Call) and call_name(x.value) == "translate_attribute"]
    r.check(not direct and (rets or raises), "EQLTranslator.translate_query#attribute-is-not-the-bare-column", site(tq, branch[0]), src(rets[0].value)[:80] if rets else "rejected",
            "an attribute condition is not handed out as the column expression",
            "an attribute that stands as a condition is translated to the bare column: WHERE name holds for the rows whose text the database reads as a non-zero number, not for the "
            "rows with a non-empty name")
    for x in rets:
        if not (isinstance(x.value, ast.Call) and is_self_attr(x.value.func)):
            continue
        m = prog.lookup(tr.qual, x.value.func.attr)
        if m is None or m.name == "translate_attribute":
            continue
        cols = {t.id for y in walk_local(m.node) if isinstance(y, ast.Assign) and isinstance(y.value, ast.Call) and call_name(y.value) == "translate_attribute" for t in y.targets if isinstance(t, ast.Name)}
        par = parents_of(m.node)
        bad = None
        n_bare = 0
        for y in [y for y in walk_local(m.node) if isinstance(y, ast.Return) and y.value is not None]:
            bare = (isinstance(y.value, ast.Name) and y.value.id in cols) or (isinstance(y.value, ast.Call) and call_name(y.value) == "translate_attribute")
            if not bare:
                continue
            n_bare += 1
            cur, ok = y, False
            while cur in par:
                up = par[cur]
                if isinstance(up, ast.If) and cur in up.body:
                    t = up.test
                    if (isinstance(t, ast.Compare) and len(t.ops) == 1 and isinstance(t.ops[0], (ast.Is, ast.Eq)) and src(t.comparators[0]) == "bool") or \
                            (isinstance(t, ast.Call) and isinstance(t.func, ast.Name) and t.func.id == "issubclass" and len(t.args) == 2 and src(t.args[1]) == "bool"):
                        ok = True
                cur = up
            if not ok:
                bad = bad or y
        rejects = any(isinstance(y, ast.Raise) for y in walk_local(m.node))
        r.check(bad is None and rejects, f"{m.short}#bare-column-for-booleans-only", site(m, bad) if bad is not None else site(m), f"{n_bare} return(s) of the bare column",
                "the column stands for itself only where its Python type is bool; a type whose truth SQL cannot express is rejected",
                f"`{src(bad) if bad is not None else 'no rejection'}`: the bare column is returned for a type other than bool (or nothing is rejected): its SQL truth is not the Python truth of the value")
    return r


def sql_on_clause(prog: Program) -> RuleResult:
    """A path `fc.parent.world.id` is joined hop by hop, each hop onto a fresh alias.  From the second hop on, the source of the join is itself an
    alias, and the ON clause has to relate *that alias* to the new one: the relationship attribute must be read from the FROM element the
    path has reached (`getattr(<current element>, name)`).  The attribute of the declaring class (`relationship.class_attribute`, the mapper's
    own attribute) names the unaliased table - for a joined-inheritance hierarchy that table is in the statement already as part of the
    selected entity, and `fc.parent.world.id == 1` is silently answered as `fc.world.id == 1`."""
    r = RuleResult("SQL-ON-CLAUSE", "a path join relates the FROM element the path has reached to the new alias", floor=1)
    tr = prog.cls(TR)
    f = tr.methods.get("_apply_relationship_join")
    if f is None:
        raise AnalysisError("SQL-ON-CLAUSE: EQLTranslator._apply_relationship_join vanished")
    elem = f.params[1]
    joins = [c for c in calls_in(f.node) if call_name(c) == "join" and len(c.args) >= 2]
    if not joins:
        raise AnalysisError("SQL-ON-CLAUSE: the path join no longer passes a relationship attribute to join()")
    for c in joins:
        on = c.args[1]
        if isinstance(on, ast.Name):
            defs = [x.value for x in walk_local(f.node) if isinstance(x, ast.Assign) and any(isinstance(t, ast.Name) and t.id == on.id for t in x.targets)]
            on = defs[0] if len(defs) == 1 else on
        ok = isinstance(on, ast.Call) and isinstance(on.func, ast.Name) and on.func.id == "getattr" and len(on.args) >= 2 and isinstance(on.args[0], ast.Name) and on.args[0].id == elem
        r.check(ok, "EQLTranslator._apply_relationship_join#attribute-of-the-current-element", site(f, c), src(on)[:80], f"the relationship attribute is read from `{elem}`, the element the path has reached",
                f"the join is made on `{src(on)[:60]}`, which is not the attribute of `{elem}`: from the second hop of a path on, the ON clause names the unaliased table instead of the alias "
                f"the path came from, and the condition is applied to the selected entity's own row")
        # inside a disjunction the path belongs to one side only: the row of an object that lacks the related object has to survive the JOIN,
        # the other side may hold for it (or_(b.name == 'C1', b.world.id == 1) with a body that is in no world)
        outer = kwarg(c, "isouter") if "kwarg" in globals() else next((k.value for k in c.keywords if k.arg == "isouter"), None)
        full = next((k.value for k in c.keywords if k.arg == "full"), None)
        ok_outer = outer is not None and ((isinstance(outer, ast.Constant) and outer.value is True) or "disjunction" in src(outer))
        r.check(ok_outer, "EQLTranslator._apply_relationship_join#outer-inside-a-disjunction", site(f, c), src(c)[:100], "the path join is an outer join wherever a disjunction is being translated",
                "the path join is an inner join also inside a disjunction: the row of an object without the related object is dropped although the other side of the disjunction holds for it")
    return r


def sql_no_consume(prog: Program) -> RuleResult:
    """'Executing the produced statement ... returns exactly the rows ... that evaluating the same query in memory returns': translating a query
    must leave the query as it was.  A variable's declared source is a one-shot stream (let() wraps every domain in a filter); whatever the
    translator needs from it is read through the caching domain (`_domain_`), which remembers what it pulled.  Pulled from the source
    directly, the first value is gone for the in-memory evaluation - or, evaluated first, for the translator."""
    r = RuleResult("SQL-NO-CONSUME", "the translator reads the values of a variable through its caching domain", floor=1)
    mod = next(m for m in prog.modules.values() if m.name.endswith("ormatic.eql_interface"))
    n = 0
    bad = None
    for f in sorted([f for f in prog.functions.values() if f.module is mod], key=lambda x: x.qual):
        for x in walk_local(f.node):
            if isinstance(x, ast.Attribute) and x.attr in ("_domain_", "_domain_source_", "iterable"):
                n += 1
            # <variable>._domain_source_.domain / ._domain_.iterable handed to iter / next / list / a loop
            if isinstance(x, ast.Attribute) and ((x.attr == "domain" and isinstance(x.value, ast.Attribute) and x.value.attr == "_domain_source_") or (x.attr == "iterable" and isinstance(x.value, ast.Attribute) and x.value.attr == "_domain_")):
                bad = bad or (f, x)
    r.check(n > 0 and bad is None, "eql_interface#domain-read-through-the-cache", site(bad[0], bad[1]) if bad else mod.relpath, src(bad[1])[:60] if bad else f"{n} read(s) of a variable's domain",
            "values are taken from the caching domain",
            f"`{src(bad[1]) if bad else ''}` ({bad[0].short if bad else ''}) reads the one-shot source behind the caching domain: translating the query consumes a value the in-memory evaluation of the same "
            "query then misses (and after an evaluation the translator finds the source exhausted and binds a symbolic expression as a parameter)")
    return r


def sql_literal_shape(prog: Program) -> RuleResult:
    """A literal operand reaches the translator as the value the user wrote: a collection as a collection, however many members it has.
    `in_(b.name, ['Body1'])` is membership in a collection of one text; taken out of its list the text meets the column in the
    'text contains column' branch and the query selects every row whose name is a part of it."""
    r = RuleResult("SQL-LITERAL-SHAPE", "the value of a literal is handed on as it is, not taken apart", floor=1)
    ex = prog.cls("eql_interface.DomainValueExtractor")
    f = prog.method(ex.qual, "extract_from_literal", inherited=False)
    if f is None:
        raise AnalysisError("SQL-LITERAL-SHAPE: DomainValueExtractor.extract_from_literal vanished")
    # names that hold one value of the literal's domain: X = <values>[<index>], for X in <values>, (X,) = <values>
    elems: Set[str] = set()
    for x in walk_local(f.node):
        if isinstance(x, ast.Assign) and len(x.targets) == 1 and isinstance(x.targets[0], ast.Name) and isinstance(x.value, ast.Subscript) and not isinstance(x.value.slice, ast.Slice):
            elems.add(x.targets[0].id)
    if not elems:
        raise AnalysisError("SQL-LITERAL-SHAPE: extract_from_literal no longer takes the single value out of the domain with `<values>[0]`")
    bad = None
    for x in walk_local(f.node):
        if isinstance(x, ast.Assign) and isinstance(x.value, ast.Name) and x.value.id in elems and any(isinstance(t, (ast.Tuple, ast.List)) for t in x.targets):
            bad = bad or x
        if isinstance(x, ast.Subscript) and isinstance(x.value, ast.Name) and x.value.id in elems:
            bad = bad or x
        if isinstance(x, (ast.For, ast.comprehension)) and isinstance(x.iter, ast.Name) and x.iter.id in elems:
            bad = bad or x.iter
        if isinstance(x, ast.Call) and call_name(x) in ("next", "iter", "min", "max", "list", "tuple", "set", "sorted") and x.args and isinstance(x.args[0], ast.Name) and x.args[0].id in elems:
            bad = bad or x
        if isinstance(x, ast.Starred) and isinstance(x.value, ast.Name) and x.value.id in elems:
            bad = bad or x
    r.check(bad is None, f"{f.short}#value-as-written", site(f, bad) if bad is not None else site(f), src(bad)[:80] if bad is not None else "", "the single value of a literal is returned whole",
            f"`{src(bad)[:70] if bad is not None else ''}` takes the value of a literal apart: a collection of one member becomes the member, and in_(b.name, ['Body1']) is translated as "
            "'Body1' contains name (instr) instead of name IN ('Body1') - every row whose name is a substring of the member is selected")
    return r


def run(prog: Program, tier: str) -> List[RuleResult]:
    return [guard(lambda: sql_literal_shape(prog)), guard(lambda: sql_reject(prog)), guard(lambda: sql_ops(prog)), guard(lambda: sql_varid(prog)), guard(lambda: sql_alias(prog)), guard(lambda: sql_fetch(prog)), guard(lambda: sql_membership(prog)), guard(lambda: sql_chain(prog)), guard(lambda: sql_state(prog)), guard(lambda: sql_exact_dao(prog)), guard(lambda: sql_clause_truth(prog)), guard(lambda: sql_cond_attr(prog)), guard(lambda: sql_on_clause(prog)), guard(lambda: sql_no_consume(prog))]
