"""CLI: python -m kverif check <Cxx> [--tier quick|thorough] | replay <path> | selftest | all"""
from __future__ import annotations

import argparse
import importlib
import json
import os
import sys
import time
import traceback
import warnings

warnings.filterwarnings("ignore", category=SyntaxWarning)

from .model import Program, AnalysisError
from . import report

PROPS = [f"C{i:02d}" for i in range(1, 21)]


def load_rules(prop: str):
    try:
        return importlib.import_module(f"kverif.rules.{prop.lower()}")
    except ModuleNotFoundError as e:
        if e.name and e.name.endswith(prop.lower()):
            raise AnalysisError(f"no checker registered for {prop}")
        raise


def run_check(prop: str, tier: str, seed: int, overlay=None, write_evidence=True, root=None) -> int:
    t0 = time.time()
    mod = load_rules(prop)
    prog = Program(root=root or os.environ.get("KVERIF_SRC", "/repo/src"), overlay=overlay)
    results = mod.run(prog, tier)
    extra = {}
    if tier == "thorough":
        # deeper tier: the same rules on /repo's tree (deciding step), plus the checker's own
        # two-way validation on in-memory variants of the *current* tree
        from . import selftest

        cases = selftest.load_cases(prop, deep=True)
        res = selftest.run_cases(cases) if cases else []
        s = selftest.summary(res)
        extra = {
            "selftest": {
                "seeded_mutants": s["mutants"],
                "killed": s["killed"],
                "equivalent_rewrites": s["rewrites"],
                "kept_silent": s["silent"],
                "stale_cases": s["stale"],
                "missed": s["missed"],
                "false_alarms": s["false_alarms"],
            }
        }
        if s["missed"] or s["false_alarms"] or s["stale"]:
            # about the checker, not about /repo: the verdict below stands, the report says where the checker itself fell short
            print(f"SELFTEST-WARNING: property={prop} missed={s['missed']} false_alarms={s['false_alarms']} stale={s['stale']}")
        if hasattr(mod, "thorough_extra"):
            extra.update(mod.thorough_extra(prog, seed) or {})
    units = dict(prog.stats())
    units["rule_modules"] = [mod.__name__]
    return report.finish(
        prop,
        tier,
        seed,
        results,
        t0,
        explanation=mod.EXPLANATION,
        assumptions=mod.ASSUMPTIONS,
        units=units,
        extra=extra,
        exhaustive=getattr(mod, "EXHAUSTIVE", False),
        write_evidence=write_evidence,
    )


def main(argv=None) -> int:
    ap = argparse.ArgumentParser(prog="kverif")
    sub = ap.add_subparsers(dest="cmd", required=True)
    c = sub.add_parser("check")
    c.add_argument("prop")
    c.add_argument("--tier", default=os.environ.get("VERIF_TIER", "quick"))
    r = sub.add_parser("replay")
    r.add_argument("path")
    st = sub.add_parser("selftest")
    st.add_argument("prop", nargs="?", default=None)
    a = sub.add_parser("all")
    a.add_argument("--tier", default="quick")
    args = ap.parse_args(argv)
    seed = int(os.environ.get("VERIF_SEED", "0") or 0)
    try:
        if args.cmd == "check":
            tier = args.tier if args.tier in ("quick", "thorough") else "quick"
            return run_check(args.prop.upper(), tier, seed)
        if args.cmd == "replay":
            with open(args.path) as fh:
                v = json.load(fh)
            prop = v["property"]
            print(f"replaying {v['key']} ({v['site']})")
            t0 = time.time()
            mod = load_rules(prop)
            prog = Program(root=os.environ.get("KVERIF_SRC", "/repo/src"))
            results = mod.run(prog, "quick")
            hit = [o for rr in results for o in rr.obligations if o.key == v["key"]]
            if not hit:
                print("obligation no longer exists on the current tree")
                return 0
            bad = [o for o in hit if not o.ok]
            for o in hit:
                print(json.dumps(o.as_dict(), indent=1))
            if bad:
                print(f"VIOLATION property={prop} replay={args.path}")
                return 1
            return 0
        if args.cmd == "selftest":
            from . import selftest

            return selftest.main(seed, args.prop.upper() if args.prop else None)
        if args.cmd == "all":
            worst = 0
            for p in PROPS:
                try:
                    load_rules(p)
                except AnalysisError:
                    continue
                try:
                    st = run_check(p, args.tier, seed)
                except AnalysisError as e:
                    print(f"ANALYSIS-ERROR property={p} {e}")
                    st = 2
                worst = max(worst, st)
            return worst
    except AnalysisError as e:
        print(f"ANALYSIS-ERROR {e}")
        return 2
    except Exception:
        print("ANALYSIS-ERROR unexpected exception in the analyser:")
        traceback.print_exc(file=sys.stdout)
        return 2
    return 0


if __name__ == "__main__":
    sys.exit(main())
