"""MANIFEST.setup_cmd: verify that the analyser can load the current tree (nothing to build)."""
import sys, warnings
warnings.filterwarnings("ignore", category=SyntaxWarning)
from .model import Program, AnalysisError

def main():
    try:
        p = Program()
    except AnalysisError as e:
        print("ANALYSIS-ERROR", e)
        return 2
    print("kverif ready:", p.stats())
    return 0

if __name__ == "__main__":
    sys.exit(main())
