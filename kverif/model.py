"""M1 - program model: modules, name resolution, classes with a statically computed C3 MRO,
functions/methods with decorators, dataclass fields.

Everything is derived from the source text on disk (or from an in-memory overlay used by the
self-test); nothing is imported or executed.
"""
from __future__ import annotations

import ast
import os
from dataclasses import dataclass, field
from typing import Dict, List, Optional, Tuple, Iterable

from . import REPO_SRC, PKG


class _InlineReturnTemp(ast.NodeTransformer):
    """`x = E` immediately followed by `return x` (nothing can read that assignment but the return)  ->  `return E`.
    One canonical form for the two spellings of the same return, so that rules which read what a function returns need not
    care which one the code uses."""

    def __init__(self):
        self.outer = [set()]

    def visit_FunctionDef(self, node):
        # names declared global / nonlocal: assigning them is visible outside, the pair is left alone
        self.outer.append({n for x in ast.walk(node) if isinstance(x, (ast.Global, ast.Nonlocal)) for n in x.names})
        self.generic_visit(node)
        self.outer.pop()
        return node

    visit_AsyncFunctionDef = visit_FunctionDef

    def _block(self, stmts):
        out = []
        i = 0
        while i < len(stmts):
            a = stmts[i]
            b = stmts[i + 1] if i + 1 < len(stmts) else None
            if (isinstance(a, ast.Assign) and len(a.targets) == 1 and isinstance(a.targets[0], ast.Name) and isinstance(b, ast.Return)
                    and isinstance(b.value, ast.Name) and b.value.id == a.targets[0].id and len(self.outer) > 1 and b.value.id not in self.outer[-1]):
                r = ast.Return(value=a.value)
                ast.copy_location(r, a)
                r.end_lineno, r.end_col_offset = getattr(b, "end_lineno", None), getattr(b, "end_col_offset", None)
                out.append(r)
                i += 2
                continue
            out.append(a)
            i += 1
        return out

    def generic_visit(self, node):
        super().generic_visit(node)
        for fld in ("body", "orelse", "finalbody"):
            v = getattr(node, fld, None)
            if isinstance(v, list) and v and isinstance(v[0], ast.stmt):
                setattr(node, fld, self._block(v))
        return node


class _NoElseAfterJump(ast.NodeTransformer):
    """`if c: ...; return/raise/continue/break` + `else: REST`  ->  the same `if` without else, followed by REST.
    (An elif chain of returning branches becomes a sequence of ifs.) One canonical form for the two spellings."""

    def _block(self, stmts):
        out = []
        for st in stmts:
            if isinstance(st, ast.If) and st.orelse and st.body and isinstance(st.body[-1], (ast.Return, ast.Raise, ast.Continue, ast.Break)):
                rest = st.orelse
                st.orelse = []
                out.append(st)
                out.extend(self._block(rest))
            else:
                out.append(st)
        return out

    def generic_visit(self, node):
        super().generic_visit(node)
        for fld in ("body", "orelse", "finalbody"):
            v = getattr(node, fld, None)
            if isinstance(v, list) and v and isinstance(v[0], ast.stmt):
                setattr(node, fld, self._block(v))
        return node


class _IfAssignToIfExp(ast.NodeTransformer):
    """`if c: x = a` / `else: x = b` (one plain assignment to the same name on each side)  ->  `x = a if c else b`."""

    def visit_If(self, node):
        self.generic_visit(node)
        if len(node.body) == 1 and len(node.orelse) == 1:
            a, b = node.body[0], node.orelse[0]
            if isinstance(a, ast.Assign) and isinstance(b, ast.Assign) and len(a.targets) == 1 and len(b.targets) == 1 \
                    and isinstance(a.targets[0], ast.Name) and isinstance(b.targets[0], ast.Name) and a.targets[0].id == b.targets[0].id:
                new = ast.Assign(targets=[a.targets[0]], value=ast.IfExp(test=node.test, body=a.value, orelse=b.value))
                ast.copy_location(new, node)
                ast.copy_location(new.value, node)
                new.end_lineno, new.end_col_offset = getattr(node, "end_lineno", None), getattr(node, "end_col_offset", None)
                new.value.end_lineno, new.value.end_col_offset = new.end_lineno, new.end_col_offset
                return new
        return node


class _AppendLoopToComprehension(ast.NodeTransformer):
    """`x = []` + `for t in it: [if c: [if d:]] x.append(e)` (nothing else in the loop, x not read in it)  ->  `x = [e for t in it if c if d]`."""

    def _block(self, stmts):
        out = []
        i = 0
        while i < len(stmts):
            a = stmts[i]
            b = stmts[i + 1] if i + 1 < len(stmts) else None
            new = None
            kind = None
            if isinstance(a, ast.Assign) and len(a.targets) == 1 and isinstance(a.targets[0], ast.Name):
                if isinstance(a.value, ast.List) and not a.value.elts:
                    kind = "list"
                elif isinstance(a.value, ast.Dict) and not a.value.keys:
                    kind = "dict"
                elif isinstance(a.value, ast.Call) and isinstance(a.value.func, ast.Name) and a.value.func.id == "set" and not a.value.args and not a.value.keywords:
                    kind = "set"
            if kind is not None and isinstance(b, ast.For) and not b.orelse and len(b.body) == 1:
                name = a.targets[0].id
                ifs = []
                cur = b.body[0]
                while isinstance(cur, ast.If) and not cur.orelse and len(cur.body) == 1:
                    ifs.append(cur.test)
                    cur = cur.body[0]
                parts = None
                if (kind in ("list", "set") and isinstance(cur, ast.Expr) and isinstance(cur.value, ast.Call) and isinstance(cur.value.func, ast.Attribute)
                        and cur.value.func.attr == ("append" if kind == "list" else "add")
                        and isinstance(cur.value.func.value, ast.Name) and cur.value.func.value.id == name and len(cur.value.args) == 1 and not cur.value.keywords
                        and not isinstance(cur.value.args[0], ast.Starred)):
                    parts = [cur.value.args[0]]
                elif (kind == "dict" and isinstance(cur, ast.Assign) and len(cur.targets) == 1 and isinstance(cur.targets[0], ast.Subscript)
                        and isinstance(cur.targets[0].value, ast.Name) and cur.targets[0].value.id == name and not isinstance(cur.targets[0].slice, ast.Slice)):
                    parts = [cur.targets[0].slice, cur.value]
                if parts is not None:
                    reads = [x for part in [b.iter] + parts + ifs for x in ast.walk(part) if isinstance(x, ast.Name) and x.id == name]
                    if not reads:
                        gens = [ast.comprehension(target=b.target, iter=b.iter, ifs=ifs, is_async=0)]
                        if kind == "list":
                            comp = ast.ListComp(elt=parts[0], generators=gens)
                        elif kind == "set":
                            comp = ast.SetComp(elt=parts[0], generators=gens)
                        else:
                            comp = ast.DictComp(key=parts[0], value=parts[1], generators=gens)
                        new = ast.Assign(targets=[a.targets[0]], value=comp)
                        ast.copy_location(new, a)
                        ast.copy_location(comp, a)
                        new.end_lineno, new.end_col_offset = getattr(b, "end_lineno", None), getattr(b, "end_col_offset", None)
                        comp.end_lineno, comp.end_col_offset = new.end_lineno, new.end_col_offset
            if new is not None:
                out.append(new)
                i += 2
            else:
                out.append(a)
                i += 1
        return out

    def generic_visit(self, node):
        super().generic_visit(node)
        for fld in ("body", "orelse", "finalbody"):
            v = getattr(node, fld, None)
            if isinstance(v, list) and v and isinstance(v[0], ast.stmt):
                setattr(node, fld, self._block(v))
        return node


class _InlineConditionTemp(ast.NodeTransformer):
    """`c = E` immediately followed by `if c:` / `if not c:`, where the function stores `c` once and reads it once (that test)
    ->  `if E:` / `if not E:`. The test is the first thing an `if` evaluates, so the two spellings run the same operations in the
    same order; rules that read a guard see the expression whichever spelling the code uses."""

    def __init__(self):
        self.single = [set()]

    def visit_FunctionDef(self, node):
        stores, loads = {}, {}
        declared = set()
        for x in ast.walk(node):
            if isinstance(x, (ast.Global, ast.Nonlocal)):
                declared.update(x.names)
            elif isinstance(x, ast.Name):
                d = loads if isinstance(x.ctx, ast.Load) else stores
                d[x.id] = d.get(x.id, 0) + 1
        params = {a.arg for a in node.args.posonlyargs + node.args.args + node.args.kwonlyargs}
        self.single.append({n for n, k in stores.items() if k == 1 and loads.get(n, 0) == 1 and n not in declared and n not in params})
        self.generic_visit(node)
        self.single.pop()
        return node

    visit_AsyncFunctionDef = visit_FunctionDef

    def _block(self, stmts):
        out = []
        i = 0
        while i < len(stmts):
            a = stmts[i]
            b = stmts[i + 1] if i + 1 < len(stmts) else None
            if (len(self.single) > 1 and isinstance(a, ast.Assign) and len(a.targets) == 1 and isinstance(a.targets[0], ast.Name)
                    and a.targets[0].id in self.single[-1] and isinstance(b, ast.If)):
                name = a.targets[0].id
                t = b.test
                if isinstance(t, ast.Name) and t.id == name:
                    b.test = a.value
                elif isinstance(t, ast.UnaryOp) and isinstance(t.op, ast.Not) and isinstance(t.operand, ast.Name) and t.operand.id == name:
                    t.operand = a.value
                else:
                    out.append(a)
                    i += 1
                    continue
                b.lineno, b.col_offset = a.lineno, a.col_offset
                out.append(b)
                i += 2
                continue
            out.append(a)
            i += 1
        return out

    def generic_visit(self, node):
        super().generic_visit(node)
        for fld in ("body", "orelse", "finalbody"):
            v = getattr(node, fld, None)
            if isinstance(v, list) and v and isinstance(v[0], ast.stmt):
                setattr(node, fld, self._block(v))
        if hasattr(node, "handlers"):
            for h in node.handlers:
                h.body = self._block(h.body)
        return node


class _NegatedOperators(ast.NodeTransformer):
    """`not (a is b)` -> `a is not b`, `not (a in b)` -> `a not in b` (single comparisons): one spelling for the negated operators"""

    def visit_UnaryOp(self, node):
        self.generic_visit(node)
        c = node.operand
        if isinstance(node.op, ast.Not) and isinstance(c, ast.Compare) and len(c.ops) == 1 and isinstance(c.ops[0], (ast.Is, ast.In, ast.IsNot, ast.NotIn)):
            # identity and membership have exact complements (`not (a not in b)` is `a in b`); == / != of user types do not
            dual = {ast.Is: ast.IsNot, ast.IsNot: ast.Is, ast.In: ast.NotIn, ast.NotIn: ast.In}[type(c.ops[0])]
            new = ast.Compare(left=c.left, ops=[dual()], comparators=c.comparators)
            ast.copy_location(new, node)
            return new
        return node


class _MergeNestedIf(ast.NodeTransformer):
    """`if a: if b: X` (neither has an else, nothing else in the outer body)  ->  `if a and b: X`. One form for a conjunction of guards."""

    def visit_If(self, node):
        self.generic_visit(node)
        if not node.orelse and len(node.body) == 1 and isinstance(node.body[0], ast.If) and not node.body[0].orelse:
            inner = node.body[0]
            flat = lambda t: list(t.values) if isinstance(t, ast.BoolOp) and isinstance(t.op, ast.And) else [t]
            test = ast.BoolOp(op=ast.And(), values=flat(node.test) + flat(inner.test))
            ast.copy_location(test, node.test)
            node.test, node.body = test, inner.body
        return node


def _negate(test: ast.expr) -> ast.expr:
    if isinstance(test, ast.UnaryOp) and isinstance(test.op, ast.Not):
        return test.operand
    n = ast.UnaryOp(op=ast.Not(), operand=test)
    ast.copy_location(n, test)
    return n


class _PositiveTests(ast.NodeTransformer):
    """`if not c: A else: B` -> `if c: B else: A` (plain if/else, no elif chain) and `a if not c else b` -> `b if c else a`; and an `if`
    whose *else* side ends in a jump while its body does not is turned round, so that the jump side is the body
    (`if c: REST else: ...return` -> `if not c: ...return else: REST`, which the next pass flattens)."""

    def visit_If(self, node):
        self.generic_visit(node)
        plain_else = node.orelse and not (len(node.orelse) == 1 and isinstance(node.orelse[0], ast.If))
        jumps = lambda blk: bool(blk) and isinstance(blk[-1], (ast.Return, ast.Raise, ast.Continue, ast.Break))
        if plain_else and jumps(node.orelse) and not jumps(node.body):
            node.test, node.body, node.orelse = _negate(node.test), node.orelse, node.body
        elif plain_else and isinstance(node.test, ast.UnaryOp) and isinstance(node.test.op, ast.Not) and not (jumps(node.body) and not jumps(node.orelse)):
            node.test, node.body, node.orelse = node.test.operand, node.orelse, node.body
        return node

    def visit_IfExp(self, node):
        self.generic_visit(node)
        if isinstance(node.test, ast.UnaryOp) and isinstance(node.test.op, ast.Not):
            node.test, node.body, node.orelse = node.test.operand, node.orelse, node.body
        return node


class _MergeIsinstance(ast.NodeTransformer):
    """`isinstance(x, A) or isinstance(x, B)` (same x, nothing else in the disjunction) -> `isinstance(x, (A, B))`"""

    def visit_BoolOp(self, node):
        self.generic_visit(node)
        if isinstance(node.op, ast.Or) and len(node.values) > 1 and all(
            isinstance(v, ast.Call) and isinstance(v.func, ast.Name) and v.func.id == "isinstance" and len(v.args) == 2 and not v.keywords for v in node.values
        ):
            first = ast.dump(node.values[0].args[0])
            if all(ast.dump(v.args[0]) == first for v in node.values):
                kinds = []
                for v in node.values:
                    kinds += list(v.args[1].elts) if isinstance(v.args[1], ast.Tuple) else [v.args[1]]
                new = ast.Call(func=node.values[0].func, args=[node.values[0].args[0], ast.Tuple(elts=kinds, ctx=ast.Load())], keywords=[])
                ast.copy_location(new, node)
                ast.copy_location(new.args[1], node)
                return new
        return node


def canonicalise(tree: ast.Module) -> ast.Module:
    for _ in range(2):  # the passes enable each other (a folded loop exposes a return temp, a turned `if` an else-after-jump)
        tree = _NegatedOperators().visit(tree)
        tree = _InlineConditionTemp().visit(tree)
        tree = _MergeNestedIf().visit(tree)
        tree = _MergeIsinstance().visit(tree)
        tree = _PositiveTests().visit(tree)
        tree = _InlineReturnTemp().visit(tree)
        tree = _IfAssignToIfExp().visit(tree)
        tree = _AppendLoopToComprehension().visit(tree)
        tree = _NoElseAfterJump().visit(tree)
        ast.fix_missing_locations(tree)
    return tree


class AnalysisError(Exception):
    """The analysis itself cannot run (vanished anchor, unparsable file, unsupported construct).
    Mapped to exit status 2 - never a pass, never a violation."""


# --------------------------------------------------------------------------------------------
@dataclass
class FuncInfo:
    qual: str
    name: str
    node: ast.FunctionDef
    module: "Module"
    cls: Optional["ClassInfo"] = None
    parent: Optional["FuncInfo"] = None

    @property
    def decorators(self) -> List[str]:
        out = []
        for d in self.node.decorator_list:
            if isinstance(d, ast.Call):
                d = d.func
            out.append(dotted(d) or ast.unparse(d))
        return out

    def _has(self, *names) -> bool:
        return any(d.split(".")[-1] in names for d in self.decorators)

    @property
    def is_property(self):
        return self._has("property", "cached_property") or any(
            d.endswith(".setter") for d in self.decorators
        )

    @property
    def is_setter(self):
        return any(d.endswith(".setter") for d in self.decorators)

    @property
    def is_cached_property(self):
        return self._has("cached_property")

    @property
    def is_lru_cache(self):
        return self._has("lru_cache", "cache")

    @property
    def is_classmethod(self):
        return self._has("classmethod")

    @property
    def is_staticmethod(self):
        return self._has("staticmethod")

    @property
    def is_abstract(self):
        return self._has("abstractmethod")

    @property
    def params(self) -> List[str]:
        a = self.node.args
        return [x.arg for x in a.posonlyargs + a.args]

    @property
    def is_generator(self) -> bool:
        for n in walk_local(self.node):
            if isinstance(n, (ast.Yield, ast.YieldFrom)):
                return True
        return False

    @property
    def loc(self) -> str:
        return f"{self.module.relpath}:{self.node.lineno}"

    @property
    def short(self) -> str:
        # Class.method or function, without module path
        if self.cls is not None:
            return f"{self.cls.name}.{self.name}"
        return self.qual.split(".", self.module.name.count(".") + 1)[-1]

    def __repr__(self):
        return f"<Func {self.qual}>"

    def __hash__(self):
        return hash(self.qual)

    def __eq__(self, other):
        return isinstance(other, FuncInfo) and other.qual == self.qual


@dataclass
class FieldInfo:
    name: str
    owner: str  # class qual
    annotation: Optional[ast.expr]
    value: Optional[ast.expr]
    stmt: ast.stmt

    @property
    def ann_text(self) -> str:
        if self.annotation is None:
            return ""
        if isinstance(self.annotation, ast.Constant) and isinstance(self.annotation.value, str):
            return self.annotation.value
        return ast.unparse(self.annotation)

    @property
    def is_classvar(self) -> bool:
        return "ClassVar" in self.ann_text

    @property
    def is_initvar(self) -> bool:
        return self.ann_text.startswith("InitVar")

    @property
    def field_call(self) -> Optional[ast.Call]:
        v = self.value
        if isinstance(v, ast.Call) and (dotted(v.func) or "").split(".")[-1] == "field":
            return v
        return None

    def field_kw(self, key: str) -> Optional[ast.expr]:
        c = self.field_call
        if c is None:
            return None
        for k in c.keywords:
            if k.arg == key:
                return k.value
        return None

    @property
    def in_init(self) -> bool:
        v = self.field_kw("init")
        if v is not None and isinstance(v, ast.Constant):
            return bool(v.value)
        return True


@dataclass
class ClassInfo:
    qual: str
    name: str
    node: ast.ClassDef
    module: "Module"
    bases: List[str] = field(default_factory=list)
    methods: Dict[str, FuncInfo] = field(default_factory=dict)
    # property setters are kept apart so that `methods[name]` is the getter
    setters: Dict[str, FuncInfo] = field(default_factory=dict)
    attrs: Dict[str, FieldInfo] = field(default_factory=dict)
    prog: "Program" = None

    @property
    def decorators(self) -> List[str]:
        out = []
        for d in self.node.decorator_list:
            if isinstance(d, ast.Call):
                d = d.func
            out.append(dotted(d) or ast.unparse(d))
        return out

    def decorator_kw(self, name: str, key: str):
        for d in self.node.decorator_list:
            if isinstance(d, ast.Call) and (dotted(d.func) or "").split(".")[-1] == name:
                for k in d.keywords:
                    if k.arg == key and isinstance(k.value, ast.Constant):
                        return k.value.value
        return None

    @property
    def is_dataclass(self) -> bool:
        return any(d.split(".")[-1] == "dataclass" for d in self.decorators)

    @property
    def mro(self) -> List[str]:
        return self.prog.mro(self.qual)

    @property
    def loc(self) -> str:
        return f"{self.module.relpath}:{self.node.lineno}"

    @property
    def metaclass(self) -> Optional[str]:
        for k in self.node.keywords:
            if k.arg == "metaclass":
                return self.module.resolve(k.value)
        return None

    def __repr__(self):
        return f"<Class {self.qual}>"

    def __hash__(self):
        return hash(self.qual)

    def __eq__(self, other):
        return isinstance(other, ClassInfo) and other.qual == self.qual


@dataclass
class Module:
    name: str
    path: str
    relpath: str
    source: str
    tree: ast.Module
    ispkg: bool
    prog: "Program" = None
    names: Dict[str, Tuple[str, str]] = field(default_factory=dict)
    classes: Dict[str, ClassInfo] = field(default_factory=dict)
    funcs: Dict[str, FuncInfo] = field(default_factory=dict)
    globals_: Dict[str, ast.stmt] = field(default_factory=dict)

    def abs_import(self, node: ast.ImportFrom) -> str:
        if node.level == 0:
            return node.module or ""
        base = self.name.split(".")
        if not self.ispkg:
            base = base[:-1]
        base = base[: len(base) - (node.level - 1)]
        return ".".join(base + ([node.module] if node.module else []))

    def resolve(self, expr: ast.expr) -> Optional[str]:
        """Resolve a Name / dotted Attribute / Subscript base to a qualified name.
        Repo definitions give their qual; everything else 'ext:<dotted>'."""
        if isinstance(expr, ast.Subscript):
            return self.resolve(expr.value)
        if isinstance(expr, ast.Constant) and isinstance(expr.value, str):
            try:
                return self.resolve(ast.parse(expr.value, mode="eval").body)
            except SyntaxError:
                return None
        d = dotted(expr)
        if d is None:
            return None
        head, _, rest = d.partition(".")
        if head in self.names:
            kind, target = self.names[head]
            q = self.prog.follow(target) if kind in ("imp", "def") else target
            if kind == "mod":
                q = target
            full = q + ("." + rest if rest else "")
            full = self.prog.follow(full)
            if full in self.prog.classes or full in self.prog.functions or full in self.prog.modules:
                return full
            # a module-level global of a repo module
            modname, _, nm = full.rpartition(".")
            if modname in self.prog.modules and nm in self.prog.modules[modname].globals_:
                return full
            return "ext:" + full
        return "ext:builtins." + d

    def __repr__(self):
        return f"<Module {self.name}>"


# --------------------------------------------------------------------------------------------
def dotted(e: ast.expr) -> Optional[str]:
    if isinstance(e, ast.Name):
        return e.id
    if isinstance(e, ast.Attribute):
        b = dotted(e.value)
        return None if b is None else b + "." + e.attr
    return None


def walk_local(fn: ast.AST) -> Iterable[ast.AST]:
    """ast.walk that does not descend into nested function/class definitions (lambdas and
    comprehensions are descended into)."""
    stack = list(ast.iter_child_nodes(fn))
    while stack:
        n = stack.pop()
        yield n
        if isinstance(n, (ast.FunctionDef, ast.AsyncFunctionDef, ast.ClassDef)):
            continue
        stack.extend(ast.iter_child_nodes(n))


def parents_of(root: ast.AST) -> Dict[ast.AST, ast.AST]:
    p = {}
    for n in ast.walk(root):
        for c in ast.iter_child_nodes(n):
            p[c] = n
    return p


# --------------------------------------------------------------------------------------------
class Program:
    def __init__(self, root: str = REPO_SRC, pkg: str = PKG, overlay: Optional[Dict[str, str]] = None):
        self.root = root
        self.pkg = pkg
        self.modules: Dict[str, Module] = {}
        self.classes: Dict[str, ClassInfo] = {}
        self.functions: Dict[str, FuncInfo] = {}
        self._mro: Dict[str, List[str]] = {}
        self._sub: Dict[str, List[str]] = {}
        self.overlay = overlay or {}
        self._load()

    # ---- loading -------------------------------------------------------------------------
    def _load(self):
        top = os.path.join(self.root, self.pkg)
        if not os.path.isdir(top):
            raise AnalysisError(f"source tree {top} not found")
        files = []
        for dp, dn, fn in os.walk(top):
            dn.sort()
            for f in sorted(fn):
                if f.endswith(".py"):
                    files.append(os.path.join(dp, f))
        for p in files:
            rel = os.path.relpath(p, self.root)
            modname = rel[:-3].replace(os.sep, ".")
            ispkg = modname.endswith(".__init__")
            if ispkg:
                modname = modname[: -len(".__init__")]
            if p in self.overlay:
                src = self.overlay[p]
            else:
                with open(p, encoding="utf-8") as fh:
                    src = fh.read()
            try:
                tree = ast.parse(src, p)
            except SyntaxError as e:
                raise AnalysisError(f"{p} does not parse: {e}")
            tree = canonicalise(tree)
            m = Module(modname, p, os.path.relpath(p, os.path.dirname(self.root)), src, tree, ispkg, self)
            self.modules[modname] = m
        for m in self.modules.values():
            self._index_module(m)
        for c in self.classes.values():
            c.bases = [c.module.resolve(b) or ("ext:?" + ast.unparse(b)) for b in c.node.bases]

    def _index_module(self, m: Module):
        for n in ast.walk(m.tree):
            if isinstance(n, ast.ImportFrom):
                src = m.abs_import(n)
                for a in n.names:
                    m.names.setdefault(a.asname or a.name, ("imp", (src + "." if src else "") + a.name))
            elif isinstance(n, ast.Import):
                for a in n.names:
                    if a.asname:
                        m.names.setdefault(a.asname, ("mod", a.name))
                    else:
                        m.names.setdefault(a.name.split(".")[0], ("mod", a.name.split(".")[0]))
        for n in m.tree.body:
            self._index_stmt(m, n)
        # statements under module-level `if`/`try` (TYPE_CHECKING imports, optional imports)
        for n in m.tree.body:
            if isinstance(n, (ast.If, ast.Try)):
                for s in ast.walk(n):
                    if isinstance(s, (ast.ClassDef, ast.FunctionDef)) and s.name not in m.names:
                        pass

    def _index_stmt(self, m: Module, n: ast.stmt):
        if isinstance(n, ast.ClassDef):
            q = m.name + "." + n.name
            ci = ClassInfo(q, n.name, n, m, prog=self)
            m.classes[n.name] = ci
            m.names[n.name] = ("def", q)
            self.classes[q] = ci
            for s in n.body:
                if isinstance(s, (ast.FunctionDef, ast.AsyncFunctionDef)):
                    fi = FuncInfo(q + "." + s.name, s.name, s, m, cls=ci)
                    if fi.is_setter:
                        ci.setters[s.name] = fi
                        self.functions[fi.qual + "@setter"] = fi
                    else:
                        ci.methods[s.name] = fi
                        self.functions[fi.qual] = fi
                    self._index_nested(fi)
                elif isinstance(s, ast.AnnAssign) and isinstance(s.target, ast.Name):
                    ci.attrs[s.target.id] = FieldInfo(s.target.id, q, s.annotation, s.value, s)
                elif isinstance(s, ast.Assign):
                    for t in s.targets:
                        if isinstance(t, ast.Name):
                            if isinstance(s.value, ast.Name) and s.value.id in ci.methods:
                                # `__iadd__ = __ior__`: a second name for a method defined above
                                ci.methods[t.id] = ci.methods[s.value.id]
                                continue
                            ci.attrs[t.id] = FieldInfo(t.id, q, None, s.value, s)
        elif isinstance(n, (ast.FunctionDef, ast.AsyncFunctionDef)):
            q = m.name + "." + n.name
            fi = FuncInfo(q, n.name, n, m)
            m.funcs[n.name] = fi
            m.names[n.name] = ("def", q)
            self.functions[q] = fi
            self._index_nested(fi)
        elif isinstance(n, ast.Assign):
            for t in n.targets:
                if isinstance(t, ast.Name):
                    m.globals_[t.id] = n
                    m.names.setdefault(t.id, ("glob", m.name + "." + t.id))
        elif isinstance(n, ast.AnnAssign) and isinstance(n.target, ast.Name):
            m.globals_[n.target.id] = n
            m.names.setdefault(n.target.id, ("glob", m.name + "." + n.target.id))

    def _index_nested(self, outer: FuncInfo):
        for s in walk_local(outer.node):
            if isinstance(s, (ast.FunctionDef, ast.AsyncFunctionDef)):
                q = outer.qual + ".<locals>." + s.name
                fi = FuncInfo(q, s.name, s, outer.module, cls=None, parent=outer)
                self.functions[q] = fi
                self._index_nested(fi)

    # ---- name resolution -----------------------------------------------------------------
    def follow(self, qual: str, _seen=()) -> str:
        """Follow re-export chains (from .x import Y in a package __init__) to the definition."""
        modname, _, name = qual.rpartition(".")
        if modname in self.modules:
            m = self.modules[modname]
            if name in m.classes or name in m.funcs:
                return qual
            if name in m.names and m.names[name][0] == "imp" and qual not in _seen:
                return self.follow(m.names[name][1], _seen + (qual,))
        return qual

    # ---- anchors -------------------------------------------------------------------------
    def cls(self, name: str) -> ClassInfo:
        """Find a class by qualified name or unique dotted suffix; a missing anchor is an
        AnalysisError."""
        if name in self.classes:
            return self.classes[name]
        hits = [c for q, c in self.classes.items() if q.endswith("." + name)]
        if len(hits) == 1:
            return hits[0]
        if not hits:
            raise AnalysisError(f"anchor class '{name}' not found in {self.root}")
        raise AnalysisError(f"anchor class '{name}' is ambiguous: {[h.qual for h in hits]}")

    def has_cls(self, name: str) -> bool:
        try:
            self.cls(name)
            return True
        except AnalysisError:
            return False

    def func(self, name: str) -> FuncInfo:
        if name in self.functions:
            return self.functions[name]
        hits = [f for q, f in self.functions.items() if q.endswith("." + name) and "@setter" not in q]
        if len(hits) == 1:
            return hits[0]
        if not hits:
            raise AnalysisError(f"anchor function '{name}' not found in {self.root}")
        raise AnalysisError(f"anchor function '{name}' is ambiguous: {[h.qual for h in hits]}")

    def method(self, cls: str, name: str, inherited: bool = True) -> FuncInfo:
        c = self.cls(cls)
        f = self.lookup(c.qual, name) if inherited else c.methods.get(name)
        if f is None:
            raise AnalysisError(f"anchor method '{c.name}.{name}' not found")
        return f

    def module(self, name: str) -> Module:
        if name in self.modules:
            return self.modules[name]
        hits = [m for q, m in self.modules.items() if q.endswith("." + name)]
        if len(hits) == 1:
            return hits[0]
        raise AnalysisError(f"anchor module '{name}' not found or ambiguous")

    # ---- hierarchy -----------------------------------------------------------------------
    def mro(self, q: str) -> List[str]:
        if q in self._mro:
            return self._mro[q]
        if q not in self.classes:
            return [q]
        bases = [b for b in self.classes[q].bases]
        seqs = [list(self.mro(b)) for b in bases] + [list(bases)]
        res = [q]
        seqs = [s for s in seqs if s]
        while seqs:
            for s in seqs:
                h = s[0]
                if not any(h in t[1:] for t in seqs):
                    break
            else:
                raise AnalysisError(f"inconsistent MRO for {q}")
            res.append(h)
            for t in seqs:
                if t and t[0] == h:
                    t.pop(0)
            seqs = [t for t in seqs if t]
        self._mro[q] = res
        return res

    def is_subclass(self, a: str, b: str) -> bool:
        return b in self.mro(a)

    def subclasses(self, q: str, strict: bool = False) -> List[ClassInfo]:
        out = [c for c in self.classes.values() if q in self.mro(c.qual) and (not strict or c.qual != q)]
        return sorted(out, key=lambda c: c.qual)

    def is_abstract_class(self, q: str) -> bool:
        """A class is abstract if some abstract method in its MRO is not overridden."""
        seen = set()
        for c in self.mro(q):
            ci = self.classes.get(c)
            if ci is None:
                continue
            for n, f in ci.methods.items():
                if n in seen:
                    continue
                seen.add(n)
                if f.is_abstract:
                    return True
        return False

    def lookup(self, clsq: str, name: str) -> Optional[FuncInfo]:
        for c in self.mro(clsq):
            ci = self.classes.get(c)
            if ci is not None and name in ci.methods:
                return ci.methods[name]
        return None

    def lookup_setter(self, clsq: str, name: str) -> Optional[FuncInfo]:
        for c in self.mro(clsq):
            ci = self.classes.get(c)
            if ci is not None and name in ci.setters:
                return ci.setters[name]
            if ci is not None and name in ci.methods:
                return None
        return None

    def lookup_super(self, recv: str, defining: str, name: str) -> Optional[FuncInfo]:
        m = self.mro(recv)
        if defining not in m:
            return None
        for c in m[m.index(defining) + 1:]:
            ci = self.classes.get(c)
            if ci is not None and name in ci.methods:
                return ci.methods[name]
        return None

    def lookup_attr(self, clsq: str, name: str) -> Optional[FieldInfo]:
        for c in self.mro(clsq):
            ci = self.classes.get(c)
            if ci is not None and name in ci.attrs:
                return ci.attrs[name]
        return None

    def fields(self, clsq: str) -> Dict[str, FieldInfo]:
        """Dataclass-style field table through the MRO (base first, overrides keep position)."""
        out: Dict[str, FieldInfo] = {}
        for c in reversed(self.mro(clsq)):
            ci = self.classes.get(c)
            if ci is None:
                continue
            for n, f in ci.attrs.items():
                if f.annotation is None and n not in out:
                    continue
                out[n] = f
        return out

    def field_type(self, clsq: str, name: str) -> Optional[str]:
        """Resolved qual of the class named in a field annotation (through Optional/List/...)."""
        f = self.lookup_attr(clsq, name)
        if f is None or f.annotation is None:
            return None
        mod = self.classes[f.owner].module
        ann = f.annotation
        if isinstance(ann, ast.Constant) and isinstance(ann.value, str):
            try:
                ann = ast.parse(ann.value, mode="eval").body
            except SyntaxError:
                return None
        return self._ann_class(mod, ann)

    def _ann_class(self, mod: Module, ann: ast.expr) -> Optional[str]:
        if isinstance(ann, ast.Subscript):
            head = (dotted(ann.value) or "").split(".")[-1]
            inner = ann.slice
            if head in ("Optional", "List", "Set", "Type", "Iterable", "Sequence", "ClassVar", "Tuple", "Dict"):
                if isinstance(inner, ast.Tuple):
                    inner = inner.elts[-1] if head == "Dict" else inner.elts[0]
                return self._ann_class(mod, inner)
            r = mod.resolve(ann.value)
            return r
        return mod.resolve(ann)

    # ---- statistics ----------------------------------------------------------------------
    def stats(self) -> Dict[str, int]:
        return {
            "modules": len(self.modules),
            "classes": len(self.classes),
            "functions": len([q for q in self.functions if "@setter" not in q]),
        }
