"""Finite model of the supported annotation grammar, used to evaluate the WrappedField
predicates *from their source* (WF-TABLE, shared by C06 and C17).

Only `typing` facts are tabled here: origin/args of each annotation category, which classes are
enums, builtin, etc.  Everything else - how the predicates combine those facts - is read from
/repo's wrapped_field.py by the abstract evaluator.
"""
from __future__ import annotations

from dataclasses import dataclass, field
from typing import Any, Dict, List, Optional, Tuple

from .model import Program, AnalysisError
from .dtable import AbstractEval, Sym, _Return, _Raise, NeedAtom


class TypeErr(Exception):
    pass


@dataclass(frozen=True)
class Ty:
    """a plain class (get_origin is None)"""

    name: str
    module: str = "model"
    enum: bool = False
    iterable: bool = False
    bases: Tuple[Any, ...] = ()  # proper base classes that matter to a test (an IntEnum is an int, a Label(str) is a str)

    def __repr__(self):
        return self.name

    def model_attr(self, a):
        if a == "__module__":
            return self.module
        if a == "__name__":
            return self.name
        raise AnalysisError(f"typemodel: attribute {a} of {self.name} is not modelled")


@dataclass(frozen=True)
class Gen:
    """a parameterised generic alias"""

    origin: Any
    args: Tuple[Any, ...]

    def __repr__(self):
        return f"{self.origin}[{', '.join(map(repr, self.args))}]"


# typing special forms / origins
UNION = Ty("Union", "typing")
OPTIONAL = Ty("Optional", "typing")
UNIONTYPE = Ty("UnionType", "types")  # origin of PEP 604 unions (X | None)
LIST = Ty("list", "builtins", iterable=True)
SET = Ty("set", "builtins", iterable=True)
TUPLE = Ty("tuple", "builtins", iterable=True)
TYPE = Ty("type", "builtins")
SEQUENCE = Ty("Sequence", "collections.abc", iterable=True)
TYPING_TYPE = Ty("Type", "typing")
NONE = Ty("NoneType", "builtins")


class _Ellipsis:
    """the `...` of Tuple[X, ...]: not a class, has no __module__ / __name__"""

    def __repr__(self):
        return "..."

    def model_attr(self, a):
        raise TypeErr(f"'ellipsis' object has no attribute {a!r}")


ELLIPSIS = _Ellipsis()
INT = Ty("int", "builtins")
FLOAT = Ty("float", "builtins")
STR = Ty("str", "builtins", iterable=True)
BOOL = Ty("bool", "builtins")
DATETIME = Ty("datetime", "datetime")
UUID_ = Ty("UUID", "uuid")
ENUMBASE = Ty("Enum", "enum", enum=True)
MYENUM = Ty("Color", "user", enum=True)
MAPPED = Ty("Mapped", "user")
CUSTOM = Ty("Custom", "user")
OTHER = Ty("Unmapped", "user")
# enums that mix a value type in (IntEnum, StrEnum, class Colour(str, Enum)) and user classes deriving from a value type: they *are*
# ints / strs for issubclass, and still an enum / a class of the model for the class diagram
INTENUM = Ty("Priority", "user", enum=True, bases=(INT,))
STRENUM = Ty("Colour", "user", enum=True, iterable=True, bases=(STR,))
STRSUB = Ty("Label", "user", iterable=True, bases=(STR,))
STAMP = Ty("Stamp", "user", bases=(DATETIME,))


def opt(x):
    return Gen(UNION, (x, NONE))


def opt_forms(x):
    """every spelling of 'x or None': Optional[x] / Union[x, None], Union[None, x], x | None, None | x"""
    return [Gen(UNION, (x, NONE)), Gen(UNION, (NONE, x)), Gen(UNIONTYPE, (x, NONE)), Gen(UNIONTYPE, (NONE, x))]


GLOBALS = {
    "Union": UNION, "Optional": OPTIONAL, "UnionType": UNIONTYPE, "Ellipsis": ELLIPSIS, "list": LIST, "set": SET, "tuple": TUPLE, "type": TYPE, "Sequence": SEQUENCE,
    "Type": TYPING_TYPE, "NoneType": NONE, "int": INT, "float": FLOAT, "str": STR, "bool": BOOL, "datetime": DATETIME,
    "UUID": UUID_, "List": Ty("List", "typing"), "Set": Ty("Set", "typing"),
}


class EnumNS:
    def model_attr(self, a):
        if a == "Enum":
            return ENUMBASE
        raise AnalysisError("typemodel: enum." + a)


GLOBALS["enum"] = EnumNS()


class InspectNS:
    def model_attr(self, a):
        if a == "isclass":
            return Fn(lambda t: isinstance(t, Ty))
        raise AnalysisError("typemodel: inspect." + a)


class Fn:
    """a modelled library function reached through a module attribute"""

    def __init__(self, f):
        self.f = f

    def __call__(self, *a):
        return self.f(*a)


GLOBALS["inspect"] = InspectNS()


def f_get_origin(t):
    return t.origin if isinstance(t, Gen) else None


def f_get_args(t):
    return t.args if isinstance(t, Gen) else ()


def f_issubclass(a, b):
    if isinstance(a, Gen) or not isinstance(a, Ty):
        raise TypeErr("issubclass() arg 1 must be a class")
    if b is ENUMBASE:
        return a.enum
    if isinstance(b, tuple):
        return any(f_issubclass(a, x) for x in b)
    return a is b or (b is SET and a is SET) or any(f_issubclass(x, b) for x in a.bases)


def f_hasattr(o, name):
    if name == "__iter__":
        return isinstance(o, Ty) and o.iterable
    raise AnalysisError(f"typemodel: hasattr(., {name!r})")


def f_len(x):
    return len(x)


def f_all(x):
    return all(x)


FUNCS = {"next": lambda g: next(iter(g)), "get_origin": f_get_origin, "get_args": f_get_args, "issubclass": f_issubclass, "hasattr": f_hasattr, "len": f_len}

# the supported grammar: category -> representative annotations (every shape of the category)
CATEGORIES: Dict[str, List[Any]] = {
    "builtin": [INT, FLOAT, STR, BOOL, DATETIME],
    "optional-builtin": opt_forms(INT) + [opt(STR), opt(DATETIME)],
    "enum": [MYENUM],
    "optional-enum": opt_forms(MYENUM),
    "list-of-builtins": [Gen(LIST, (INT,)), Gen(SET, (STR,)), Gen(LIST, (FLOAT,))],
    "list-of-uuid": [Gen(LIST, (UUID_,))],
    "mapped": [MAPPED],
    "optional-mapped": opt_forms(MAPPED),
    "collection-of-mapped": [Gen(LIST, (MAPPED,)), Gen(SET, (MAPPED,)), Gen(SEQUENCE, (MAPPED,))],
    "type-of": [Gen(TYPE, (MAPPED,)), Gen(TYPE, (OTHER,))],
    "custom": [CUSTOM],
    "optional-custom": opt_forms(CUSTOM),
    "list-of-custom": [Gen(LIST, (CUSTOM,))],
}
# classification-only categories (C17): annotations the class diagram classifies although the ORM grammar (C06) does not list them
CLASSIFY_ONLY: Dict[str, List[Any]] = {
    # tuple is one of the container types of the class diagram: the variadic form Tuple[X, ...] is a collection of X
    "variadic-tuple-of-mapped": [Gen(TUPLE, (MAPPED, ELLIPSIS))],
    "variadic-tuple-of-builtins": [Gen(TUPLE, (INT, ELLIPSIS)), Gen(TUPLE, (STR, ELLIPSIS))],
    "collection-of-enum": [Gen(LIST, (MYENUM,)), Gen(SET, (MYENUM,)), Gen(SEQUENCE, (MYENUM,))],
    "type-of-enum": [Gen(TYPE, (MYENUM,))],
    "mixin-enum": [INTENUM, STRENUM],
    "optional-mixin-enum": opt_forms(INTENUM) + [opt(STRENUM)],
    "collection-of-mixin-enum": [Gen(LIST, (INTENUM,)), Gen(SET, (STRENUM,))],
    "subclass-of-a-value-type": [STRSUB, STAMP],
    "optional-subclass-of-a-value-type": opt_forms(STRSUB),
    "collection-of-subclass-of-a-value-type": [Gen(LIST, (STRSUB,)), Gen(LIST, (STAMP,))],
}

PREDICATES = ["is_optional", "is_container", "is_builtin_type", "is_enum", "is_type_type", "is_one_to_one_relationship",
              "is_one_to_many_relationship", "is_collection_of_builtins", "type_endpoint", "is_iterable"]

T, F = True, False
# expected classification (DESIGN.md appendix C): the oracle, written from the property statement
EXPECTED: Dict[str, Dict[str, Any]] = {
    "builtin": dict(is_optional=F, is_container=F, is_builtin_type=T, is_enum=F, is_type_type=F, is_one_to_one_relationship=F, is_one_to_many_relationship=F, is_collection_of_builtins=F, endpoint="self", is_iterable=F),
    "optional-builtin": dict(is_optional=T, is_container=F, is_builtin_type=T, is_enum=F, is_type_type=F, is_one_to_one_relationship=F, is_one_to_many_relationship=F, is_collection_of_builtins=F, endpoint="inner", is_iterable=F),
    "enum": dict(is_optional=F, is_container=F, is_builtin_type=F, is_enum=T, is_type_type=F, is_one_to_one_relationship=T, is_one_to_many_relationship=F, is_collection_of_builtins=F, endpoint="self", is_iterable=F),
    "optional-enum": dict(is_optional=T, is_container=F, is_builtin_type=F, is_enum=T, is_type_type=F, is_one_to_one_relationship=T, is_one_to_many_relationship=F, is_collection_of_builtins=F, endpoint="inner", is_iterable=F),
    "list-of-builtins": dict(is_optional=F, is_container=T, is_builtin_type=T, is_enum=F, is_type_type=F, is_one_to_one_relationship=F, is_one_to_many_relationship=F, is_collection_of_builtins=T, endpoint="inner", is_iterable=F),
    "list-of-uuid": dict(is_optional=F, is_container=T, is_builtin_type=F, is_enum=F, is_type_type=F, is_one_to_one_relationship=F, is_one_to_many_relationship=T, is_collection_of_builtins=T, endpoint="inner", is_iterable=T),
    "mapped": dict(is_optional=F, is_container=F, is_builtin_type=F, is_enum=F, is_type_type=F, is_one_to_one_relationship=T, is_one_to_many_relationship=F, is_collection_of_builtins=F, endpoint="self", is_iterable=F),
    "optional-mapped": dict(is_optional=T, is_container=F, is_builtin_type=F, is_enum=F, is_type_type=F, is_one_to_one_relationship=T, is_one_to_many_relationship=F, is_collection_of_builtins=F, endpoint="inner", is_iterable=F),
    "collection-of-mapped": dict(is_optional=F, is_container=T, is_builtin_type=F, is_enum=F, is_type_type=F, is_one_to_one_relationship=F, is_one_to_many_relationship=T, is_collection_of_builtins=F, endpoint="inner", is_iterable=T),
    "type-of": dict(is_optional=F, is_container=T, is_builtin_type=F, is_enum=F, is_type_type=T, is_one_to_one_relationship=F, is_one_to_many_relationship=T, is_collection_of_builtins=F, endpoint="inner", is_iterable=F),
    "custom": dict(is_optional=F, is_container=F, is_builtin_type=F, is_enum=F, is_type_type=F, is_one_to_one_relationship=T, is_one_to_many_relationship=F, is_collection_of_builtins=F, endpoint="self", is_iterable=F),
    "optional-custom": dict(is_optional=T, is_container=F, is_builtin_type=F, is_enum=F, is_type_type=F, is_one_to_one_relationship=T, is_one_to_many_relationship=F, is_collection_of_builtins=F, endpoint="inner", is_iterable=F),
    "list-of-custom": dict(is_optional=F, is_container=T, is_builtin_type=F, is_enum=F, is_type_type=F, is_one_to_one_relationship=F, is_one_to_many_relationship=T, is_collection_of_builtins=F, endpoint="inner", is_iterable=T),
    # a collection of enum members is a container, not an enum field; Type[Enum] is type-valued
    "collection-of-enum": dict(is_optional=F, is_container=T, is_builtin_type=F, is_enum=F, is_type_type=F, is_one_to_one_relationship=F, is_one_to_many_relationship=T, is_collection_of_builtins=F, endpoint="inner", is_iterable=T),
    "variadic-tuple-of-mapped": dict(is_optional=F, is_container=T, is_builtin_type=F, is_enum=F, is_type_type=F, is_one_to_one_relationship=F, is_one_to_many_relationship=T, is_collection_of_builtins=F, endpoint="inner", is_iterable=T),
    "variadic-tuple-of-builtins": dict(is_optional=F, is_container=T, is_builtin_type=T, is_enum=F, is_type_type=F, is_one_to_one_relationship=F, is_one_to_many_relationship=F, is_collection_of_builtins=T, endpoint="inner", is_iterable=F),
    "type-of-enum": dict(is_optional=F, is_container=T, is_builtin_type=F, is_enum=F, is_type_type=T, is_one_to_one_relationship=F, is_one_to_many_relationship=T, is_collection_of_builtins=F, endpoint="inner", is_iterable=F),
}


# a mixin enum is an enum, a user class deriving from a value type is a class of the model - whatever value type is mixed in
EXPECTED["mixin-enum"] = EXPECTED["enum"]
EXPECTED["optional-mixin-enum"] = EXPECTED["optional-enum"]
EXPECTED["collection-of-mixin-enum"] = EXPECTED["collection-of-enum"]
EXPECTED["subclass-of-a-value-type"] = EXPECTED["custom"]
EXPECTED["optional-subclass-of-a-value-type"] = EXPECTED["optional-custom"]
EXPECTED["collection-of-subclass-of-a-value-type"] = EXPECTED["list-of-custom"]


def inner_of(ann):
    if isinstance(ann, Gen):
        if ann.origin in (UNION, UNIONTYPE):
            return [a for a in ann.args if a is not NONE][0]
        return ann.args[0]
    return ann


def evaluate_predicate(prog: Program, pred: str, ann, receiver: str = "self"):
    """value of WrappedField.<pred> for a field whose resolved type is the model annotation"""
    wf = prog.cls("wrapped_field.WrappedField")
    f = prog.lookup(wf.qual, pred)
    if f is None:
        raise AnalysisError(f"WF-TABLE: WrappedField.{pred} vanished")
    ae = AbstractEval(prog, {}, const_attrs={f"{receiver}.resolved_type": ann}, max_depth=12)
    ae.globals = dict(GLOBALS)
    ae.funcs = dict(FUNCS)
    ae.funcs["all"] = lambda g: all(g)
    ae.type_of[receiver] = wf.qual
    try:
        return ae.call_func(f, [Sym(receiver)], {})
    except _Raise as x:
        return ("raise", x.exc)
    except TypeErr as x:
        return ("raise", "TypeError")
    except NeedAtom as na:
        raise AnalysisError(f"WF-TABLE: WrappedField.{pred} consults {na.atom}, outside the typing facts tabled in the checker")


def wf_table(prog: Program, r, rule_prefix: str = "", classify_only: bool = False):
    """one obligation per (annotation category, predicate): value derived from /repo's source
    equals the value the annotation grammar dictates"""
    wf = prog.cls("wrapped_field.WrappedField")
    for cat, anns in list(CATEGORIES.items()) + (list(CLASSIFY_ONLY.items()) if classify_only else []):
        exp = EXPECTED[cat]
        for pred in PREDICATES:
            f = prog.lookup(wf.qual, pred)
            got = []
            for ann in anns:
                got.append(evaluate_predicate(prog, pred, ann))
            if pred == "type_endpoint":
                want = [ann if exp["endpoint"] == "self" else inner_of(ann) for ann in anns]
            else:
                want = [exp[pred]] * len(anns)
            ok = got == want
            site_ = f"{f.module.relpath}:{f.node.lineno}" if f is not None else ""
            r.check(ok, f"WrappedField.{pred}#{cat}", site_, f"{pred}({', '.join(map(repr, anns))})",
                    f"{[repr(g) for g in got]} as the annotation dictates",
                    f"for {cat} annotations {[repr(a) for a in anns]} the source computes {[repr(g) for g in got]}, the annotation dictates {[repr(w) for w in want]}")
