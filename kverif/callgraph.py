"""M2 - call resolution by class-hierarchy analysis.

resolve_call(prog, ctx, call) gives the repo functions a call may reach:
  self.m(...) / cls.m(...)      -> lookup through the MRO of the receiver class `ctx.recv`
  super().m(...)                -> next definition after the defining class in recv's MRO
  Class.m(...), func(...)       -> through the module's name table
  self.field.m(...)             -> every definition of m in the cone of the field's annotated class
  property reads self.x         -> the getter (property_reads=True)
External callees are returned as 'ext:<dotted>' strings.
"""
from __future__ import annotations

import ast
from dataclasses import dataclass
from typing import Dict, Iterable, List, Optional, Set, Tuple, Union

from .model import Program, FuncInfo, ClassInfo, dotted, walk_local
from .astutil import is_super_call


@dataclass(frozen=True)
class Ctx:
    fn: FuncInfo
    recv: Optional[str]  # qual of the concrete receiver class (for methods)


def resolve_call(prog: Program, ctx: Ctx, c: ast.Call) -> List[Union[FuncInfo, str]]:
    f = c.func
    fn = ctx.fn
    selfname = fn.params[0] if (fn.cls is not None and fn.params and not fn.is_staticmethod) else None
    if isinstance(f, ast.Attribute):
        v = f.value
        if isinstance(v, ast.Name) and selfname and v.id == selfname and ctx.recv:
            t = prog.lookup(ctx.recv, f.attr)
            if t is not None:
                return [t]
            ext = _external_base_method(prog, ctx.recv, f.attr)
            return [ext] if ext else []
        if is_super_call(c) and ctx.recv and fn.cls is not None:
            t = prog.lookup_super(ctx.recv, fn.cls.qual, f.attr)
            if t is not None:
                return [t]
            m = prog.mro(ctx.recv)
            for q in m[m.index(fn.cls.qual) + 1:] if fn.cls.qual in m else []:
                if q.startswith("ext:") and _ext_has(q, f.attr):
                    return [q + "." + f.attr]
            return []
        # self.field.m()
        if isinstance(v, ast.Attribute) and isinstance(v.value, ast.Name) and selfname and v.value.id == selfname and ctx.recv:
            ft = prog.field_type(ctx.recv, v.attr)
            if ft and ft in prog.classes:
                out = []
                for sc in prog.subclasses(ft):
                    t = prog.lookup(sc.qual, f.attr)
                    if t is not None and t not in out:
                        out.append(t)
                return out
        q = fn.module.resolve(f)
        if q in prog.functions:
            return [prog.functions[q]]
        if q and q.startswith("ext:"):
            return [q]
        # Class.m
        qb = fn.module.resolve(v)
        if qb in prog.classes:
            t = prog.lookup(qb, f.attr)
            return [t] if t is not None else []
        return []
    if isinstance(f, ast.Name):
        # local nested function?
        nested = prog.functions.get(fn.qual + ".<locals>." + f.id)
        if nested is not None:
            return [nested]
        q = fn.module.resolve(f)
        if q in prog.functions:
            return [prog.functions[q]]
        if q in prog.classes:
            out = []
            for m in ("__new__", "__init__", "__post_init__"):
                t = prog.lookup(q, m)
                if t is not None:
                    out.append(t)
            return out or [q]
        return [q] if q else []
    return []


_BUILTIN_TYPES = {"ext:builtins.list": list, "ext:builtins.set": set, "ext:builtins.dict": dict, "ext:builtins.object": object,
                  "ext:builtins.Exception": Exception, "ext:builtins.TypeError": TypeError, "ext:builtins.ValueError": ValueError,
                  "ext:builtins.KeyError": KeyError, "ext:builtins.type": type}
_MIXINS = ("Generic", "ABC", "Protocol")


def _ext_has(q: str, name: str) -> bool:
    """static knowledge about external bases: builtin types are consulted by attribute table,
    typing/abc mix-ins define no container methods, anything else is assumed to define it"""
    if q in _BUILTIN_TYPES:
        return hasattr(_BUILTIN_TYPES[q], name)
    if q.split(".")[-1] in _MIXINS:
        return name in ("__init_subclass__", "__class_getitem__") or hasattr(object, name)
    return True


def _external_base_method(prog: Program, recv: str, name: str) -> Optional[str]:
    for q in prog.mro(recv):
        if q.startswith("ext:") and _ext_has(q, name):
            return q + "." + name
    return None


def self_closure(prog: Program, recv: str, start: FuncInfo, property_reads: bool = True, max_nodes: int = 400) -> Tuple[Set[FuncInfo], Set[str]]:
    """Functions of the receiver's own class hierarchy reachable from `start` through self-calls,
    super-calls and (optionally) property reads; plus the external callees seen."""
    seen: Set[FuncInfo] = set()
    ext: Set[str] = set()
    work = [start]
    while work and len(seen) < max_nodes:
        f = work.pop()
        if f in seen:
            continue
        seen.add(f)
        ctx = Ctx(f, recv)
        selfname = f.params[0] if f.params else None
        for n in walk_local(f.node):
            if isinstance(n, ast.Call):
                for t in resolve_call(prog, ctx, n):
                    if isinstance(t, FuncInfo):
                        if t.cls is not None and t.cls.qual in prog.mro(recv):
                            work.append(t)
                        else:
                            ext.add(t.qual)
                    else:
                        ext.add(t)
            elif property_reads and isinstance(n, ast.Attribute) and isinstance(n.value, ast.Name) and n.value.id == selfname:
                t = prog.lookup(recv, n.attr)
                if t is not None and t.is_property:
                    work.append(t)
    return seen, ext


def closure(prog: Program, starts: Iterable[Tuple[FuncInfo, Optional[str]]], max_nodes: int = 3000) -> Set[Tuple[FuncInfo, Optional[str]]]:
    """Whole-program reachability (function, receiver class) from the given entry points."""
    seen: Set[Tuple[FuncInfo, Optional[str]]] = set()
    work = list(starts)
    while work and len(seen) < max_nodes:
        item = work.pop()
        if item in seen:
            continue
        seen.add(item)
        f, recv = item
        ctx = Ctx(f, recv)
        selfname = f.params[0] if (f.cls is not None and f.params) else None
        for n in walk_local(f.node):
            if isinstance(n, ast.Call):
                ts = resolve_call(prog, ctx, n)
                if not any(isinstance(t, FuncInfo) for t in ts) and isinstance(n.func, ast.Attribute) and n.func.attr.startswith("_") and n.func.attr.endswith("_") and not n.func.attr.startswith("__"):
                    # protocol methods (_name_) called on a receiver of unknown type: class-hierarchy analysis by name
                    ts = [c.methods[n.func.attr] for c in prog.classes.values() if n.func.attr in c.methods]
                for t in ts:
                    if isinstance(t, FuncInfo):
                        if t.cls is not None and recv and t.cls.qual in prog.mro(recv):
                            work.append((t, recv))
                        else:
                            work.append((t, t.cls.qual if t.cls is not None else None))
            elif isinstance(n, ast.Attribute) and isinstance(n.value, ast.Name) and selfname and n.value.id == selfname and recv:
                t = prog.lookup(recv, n.attr)
                if t is not None and t.is_property:
                    work.append((t, recv))
    return seen
