"""Verdict contract: obligations, findings, known findings, evidence files, exit status."""
from __future__ import annotations

import json
import os
import time
from dataclasses import dataclass, field
from typing import Any, Dict, List, Optional

VERIF = os.path.dirname(os.path.dirname(os.path.abspath(__file__)))
EVIDENCE_DIR = os.environ.get("KVERIF_EVIDENCE_DIR") or os.path.join(VERIF, "evidence")  # scratch runs against another tree write elsewhere
VIOLATION_DIR = os.path.join(EVIDENCE_DIR, "violations")
KNOWN_FILE = os.path.join(VERIF, "known_findings.json")


@dataclass
class Obligation:
    """One rule instance: a construct of /repo that the rule had to discharge."""

    rule: str
    key: str  # rule@function#role - never a line number
    ok: bool
    site: str = ""  # file:line (diagnostic only)
    construct: str = ""  # unparsed construct
    detail: str = ""  # what the rule derived / why it fails
    facts: Dict[str, Any] = field(default_factory=dict)

    def as_dict(self):
        d = {
            "rule": self.rule,
            "key": self.key,
            "ok": self.ok,
            "site": self.site,
            "construct": self.construct[:300],
            "detail": self.detail,
        }
        if self.facts:
            d["facts"] = self.facts
        return d


class RuleResult:
    """Collected by one rule run."""

    def __init__(self, rule: str, description: str, floor: int = 1):
        self.rule = rule
        self.description = description
        self.floor = floor
        self.obligations: List[Obligation] = []
        self.notes: List[str] = []
        self.control_ok: Optional[bool] = None  # positive control for zero-expected rules
        self.blind: Optional[str] = None  # set by guard(): the rule raised AnalysisError

    def ok(self, key, site="", construct="", detail="", **facts):
        self.obligations.append(Obligation(self.rule, f"{self.rule}@{key}", True, site, construct, detail, facts))

    def fail(self, key, site="", construct="", detail="", **facts):
        self.obligations.append(Obligation(self.rule, f"{self.rule}@{key}", False, site, construct, detail, facts))

    def check(self, cond: bool, key, site="", construct="", detail_ok="", detail_fail="", **facts):
        (self.ok if cond else self.fail)(key, site, construct, detail_ok if cond else detail_fail, **facts)
        return cond

    def note(self, text: str):
        self.notes.append(text)

    @property
    def failed(self) -> List[Obligation]:
        return [o for o in self.obligations if not o.ok]


def guard(thunk) -> RuleResult:
    """Runs one rule.  A rule that cannot analyse the tree (AnalysisError) does not stop the other rules of the property: it comes back as a
    blind result.  `finish` reports the check as analysis-broken (exit 2) unless another rule has a definite violation to report."""
    from .model import AnalysisError

    try:
        return thunk()
    except AnalysisError as e:
        r = RuleResult("(blind)", str(e), floor=0)
        r.blind = str(e)
        return r


def load_known() -> Dict[str, Any]:
    if not os.path.exists(KNOWN_FILE):
        return {"known": [], "fixed": []}
    with open(KNOWN_FILE) as fh:
        return json.load(fh)


def known_keys(prop: str) -> Dict[str, Dict[str, Any]]:
    k = load_known()
    return {e["key"]: e for e in k.get("known", []) if e["property"] == prop}


def write_json(path: str, data: Any):
    os.makedirs(os.path.dirname(path), exist_ok=True)
    tmp = path + ".tmp%d" % os.getpid()
    with open(tmp, "w") as fh:
        json.dump(data, fh, indent=1, sort_keys=False, default=str)
        fh.write("\n")
    os.replace(tmp, path)


def finish(
    prop: str,
    tier: str,
    seed: int,
    results: List[RuleResult],
    t0: float,
    explanation: str,
    assumptions: List[str],
    units: Dict[str, Any],
    extra: Optional[Dict[str, Any]] = None,
    exhaustive: bool = False,
    write_evidence: bool = True,
) -> int:
    """Print the verdict lines, write the evidence file, return the exit status."""
    from .model import AnalysisError

    known = known_keys(prop)
    violations: List[Obligation] = []
    known_hit: List[Obligation] = []
    total = 0
    discharged = 0
    per_rule = []
    blind: List[str] = []
    for r in results:
        if r.blind is not None:
            blind.append(r.blind)
            continue
        if len(r.obligations) < r.floor and not r.failed:
            blind.append(
                f"rule {r.rule} matched {len(r.obligations)} instance(s), floor is {r.floor}: "
                f"the anchors of this rule vanished or the rule no longer sees them"
            )
        if r.control_ok is False:
            blind.append(f"rule {r.rule}: positive control did not match - the rule is blind")
        nf = 0
        for o in r.obligations:
            total += 1
            if o.ok:
                discharged += 1
            elif o.key in known:
                known_hit.append(o)
                nf += 1
            else:
                violations.append(o)
                nf += 1
        per_rule.append(
            {
                "rule": r.rule,
                "what": r.description,
                "instances": len(r.obligations),
                "floor": r.floor,
                "failed": nf,
                "positive_control": r.control_ok,
                "notes": r.notes,
            }
        )
    if blind and not violations:
        # a blind rule is never a silent pass; when another rule reports a violation the
        # violation is the more useful verdict and the blindness is printed with it
        raise AnalysisError("; ".join(blind))
    for b in blind:
        print(f"NOTE: {b}")
    for o in known_hit:
        e = known[o.key]
        print(f"KNOWN-FINDING: property={prop} {o.key} :: {e.get('what', o.detail)}")
    # a listed finding that no longer reproduces is reported (not an error: it may have been fixed)
    stale = [k for k in known if k not in {o.key for o in known_hit}]
    for k in stale:
        print(f"NOTE: listed finding {k} was not reported by this run (fixed or construct changed)")
    status = 0
    replay_paths = []
    if violations:
        status = 1
        os.makedirs(VIOLATION_DIR, exist_ok=True)
        for i, o in enumerate(violations):
            safe = "".join(ch if ch.isalnum() or ch in "-_." else "_" for ch in o.key)[:120]
            path = os.path.join(VIOLATION_DIR, f"{prop}-{safe}.json")
            write_json(path, {"property": prop, **o.as_dict()})
            replay_paths.append(path)
            print(f"VIOLATION property={prop} replay={path}")
            print(f"  rule={o.rule} key={o.key}")
            print(f"  at {o.site}: {o.construct[:160]}")
            print(f"  {o.detail}")
    wall = time.time() - t0
    samples = []
    for r in results:
        for o in r.obligations[:4]:
            samples.append(o.as_dict())
    for o in violations[:10] + known_hit[:10]:
        d = o.as_dict()
        if d not in samples:
            samples.append(d)
    distinct = len({o.key for r in results for o in r.obligations})
    cov = {
        "explanation": explanation,
        "obligations": total,
        "discharged": discharged,
        "known_findings_reported": len(known_hit),
        "evaluations": total,
        "distinct_nontrivial": distinct,
        "rule": "one obligation per (rule, function, role) instance found in /repo's current source; "
        "distinct = distinct obligation keys; every obligation is derived from a construct of the "
        "analysed tree (none is a constant)",
        "samples": samples,
        "rules": per_rule,
        "units_analysed": units,
        "checker_cmd": f"/venv/bin/python -m kverif check {prop}" + (" --tier thorough" if tier == "thorough" else ""),
        "trusted_base": ["CPython ast parser", "kverif program model (C3 MRO, CHA call resolution)"],
        "exhaustive": exhaustive,
    }
    if extra:
        cov.update(extra)
    ev = {
        "property_id": prop,
        "tier": tier,
        "seed": seed,
        "level": "other",
        "coverage": cov,
        "assumptions": assumptions,
        "wall_s": round(wall, 3),
        "violations": len(violations),
    }
    if write_evidence:
        write_json(os.path.join(EVIDENCE_DIR, f"{prop}.json"), ev)
    print(
        f"{prop} [{tier}] rules={len(results)} obligations={total} discharged={discharged} "
        f"known={len(known_hit)} violations={len(violations)} wall={wall:.2f}s"
    )
    return status
