"""M3 - statement-level control-flow graph with dominators / post-dominators.

Nodes are simple statements and the headers of compound statements (the `if`/`while` test, the
`for` iterator, the `with` items, `except` clauses).  Two exits: EXIT (normal return / fall off the
end) and RAISE (uncaught explicit `raise`).  Inside a `try` body every node also has an edge to
each handler (any statement may raise).  Generator expressions, lambdas and nested functions are
separate regions and are not entered.
"""
from __future__ import annotations

import ast
from dataclasses import dataclass, field
from typing import Dict, List, Optional, Set, Tuple


@dataclass
class Node:
    id: int
    kind: str  # entry | exit | raise | stmt | test | for | while | with | except | finally
    stmt: Optional[ast.AST] = None
    succ: List[int] = field(default_factory=list)
    pred: List[int] = field(default_factory=list)
    # for `test` nodes: successors taken when the test is true / false
    true_succ: Optional[int] = None
    false_succ: Optional[int] = None
    loops: Tuple[int, ...] = ()  # ids of enclosing loop headers

    @property
    def lineno(self):
        return getattr(self.stmt, "lineno", 0)


class CFG:
    def __init__(self, fn: ast.FunctionDef):
        self.fn = fn
        self.nodes: List[Node] = []
        self.entry = self._new("entry")
        self.exit = self._new("exit")
        self.raise_exit = self._new("raise")
        self._loop_stack: List[Tuple[int, List[int]]] = []  # (header, break-collect)
        self._handler_stack: List[List[int]] = []
        self._loops: List[int] = []
        self.by_stmt: Dict[ast.AST, int] = {}
        ends = self._block(fn.body, [self.entry])
        for e in ends:
            self._edge(e, self.exit)
        self._dom = None
        self._pdom = None

    # ---- construction ------------------------------------------------------------------
    def _new(self, kind, stmt=None) -> int:
        n = Node(len(self.nodes), kind, stmt, loops=tuple(getattr(self, "_loops", ())))
        self.nodes.append(n)
        if stmt is not None and stmt not in self.by_stmt:
            self.by_stmt[stmt] = n.id
        return n.id

    def _edge(self, a: int, b: int):
        if b not in self.nodes[a].succ:
            self.nodes[a].succ.append(b)
            self.nodes[b].pred.append(a)

    def _link(self, preds: List[int], n: int):
        for p in preds:
            self._edge(p, n)
        for hs in self._handler_stack[-1:]:
            for h in hs:
                self._edge(n, h)

    def _block(self, stmts, preds: List[int]) -> List[int]:
        for s in stmts:
            preds = self._stmt(s, preds)
        return preds

    def _stmt(self, s, preds: List[int]) -> List[int]:
        if isinstance(s, ast.If):
            t = self._new("test", s)
            self._link(preds, t)
            body_end = self._block(s.body, [t])
            self.nodes[t].true_succ = self.nodes[t].succ[-1] if self.nodes[t].succ else None
            nsucc = len(self.nodes[t].succ)
            if s.orelse:
                else_end = self._block(s.orelse, [t])
                if len(self.nodes[t].succ) > nsucc:
                    self.nodes[t].false_succ = self.nodes[t].succ[nsucc]
                return body_end + else_end
            return body_end + [t]
        if isinstance(s, (ast.For, ast.AsyncFor, ast.While)):
            h = self._new("for" if not isinstance(s, ast.While) else "while", s)
            self._link(preds, h)
            breaks: List[int] = []
            self._loop_stack.append((h, breaks))
            self._loops.append(h)
            body_end = self._block(s.body, [h])
            self._loops.pop()
            self._loop_stack.pop()
            for e in body_end:
                self._edge(e, h)
            # `while True:` (a constant true test) has no false edge: it is left through break / return / raise only
            endless = isinstance(s, ast.While) and isinstance(s.test, ast.Constant) and bool(s.test.value)
            after = [] if endless else [h]
            if s.orelse and not endless:
                after = self._block(s.orelse, [h])
            return after + breaks
        if isinstance(s, (ast.With, ast.AsyncWith)):
            w = self._new("with", s)
            self._link(preds, w)
            return self._block(s.body, [w])
        if isinstance(s, ast.Try):
            handler_heads = []
            for h in s.handlers:
                hn = self._new("except", h)
                handler_heads.append(hn)
            self._handler_stack.append(handler_heads)
            body_end = self._block(s.body, preds)
            self._handler_stack.pop()
            if s.orelse:
                body_end = self._block(s.orelse, body_end)
            ends = list(body_end)
            for h, hn in zip(s.handlers, handler_heads):
                # make the handler reachable even when the body has no node
                if not self.nodes[hn].pred:
                    for p in preds:
                        self._edge(p, hn)
                ends += self._block(h.body, [hn])
            if s.finalbody:
                f = self._new("finally", s)
                for e in ends:
                    self._edge(e, f)
                ends = self._block(s.finalbody, [f])
            return ends
        if isinstance(s, ast.Return):
            n = self._new("stmt", s)
            self._link(preds, n)
            self._edge(n, self.exit)
            return []
        if isinstance(s, ast.Raise):
            n = self._new("stmt", s)
            self._link(preds, n)
            if self._handler_stack and self._handler_stack[-1]:
                pass  # edges to handlers were added by _link
            else:
                self._edge(n, self.raise_exit)
            return []
        if isinstance(s, ast.Break):
            n = self._new("stmt", s)
            self._link(preds, n)
            if self._loop_stack:
                self._loop_stack[-1][1].append(n)
            return []
        if isinstance(s, ast.Continue):
            n = self._new("stmt", s)
            self._link(preds, n)
            if self._loop_stack:
                self._edge(n, self._loop_stack[-1][0])
            return []
        if isinstance(s, (ast.FunctionDef, ast.AsyncFunctionDef, ast.ClassDef)):
            n = self._new("stmt", s)
            self._link(preds, n)
            return [n]
        if isinstance(s, ast.Match):
            t = self._new("test", s)
            self._link(preds, t)
            ends = [t]
            for c in s.cases:
                ends += self._block(c.body, [t])
            return ends
        n = self._new("stmt", s)
        self._link(preds, n)
        return [n]

    # ---- dominance ---------------------------------------------------------------------
    def _dominators(self, root: int, forward: bool) -> Dict[int, Set[int]]:
        ids = [n.id for n in self.nodes]
        allset = set(ids)
        dom = {i: set(allset) for i in ids}
        dom[root] = {root}
        changed = True
        while changed:
            changed = False
            for i in ids:
                if i == root:
                    continue
                ps = self.nodes[i].pred if forward else self.nodes[i].succ
                ps = [p for p in ps]
                if not ps:
                    new = {i}
                else:
                    new = set.intersection(*(dom[p] for p in ps)) | {i}
                if new != dom[i]:
                    dom[i] = new
                    changed = True
        return dom

    @property
    def dom(self):
        if self._dom is None:
            self._dom = self._dominators(self.entry, True)
        return self._dom

    @property
    def pdom(self):
        if self._pdom is None:
            self._pdom = self._dominators(self.exit, False)
        return self._pdom

    def reachable(self, start: int, avoid: Set[int] = frozenset()) -> Set[int]:
        seen = set()
        stack = [start]
        while stack:
            n = stack.pop()
            if n in seen or n in avoid:
                continue
            seen.add(n)
            stack.extend(self.nodes[n].succ)
        return seen

    def dominates(self, a: int, b: int) -> bool:
        return a in self.dom[b]

    def postdominates(self, a: int, b: int) -> bool:
        return a in self.pdom[b]

    def node_of(self, stmt_or_expr: ast.AST) -> Optional[int]:
        """CFG node of the statement that contains the given AST node."""
        if stmt_or_expr in self.by_stmt:
            return self.by_stmt[stmt_or_expr]
        for n in self.nodes:
            if n.stmt is None:
                continue
            for part in self._own_parts(n):
                for x in ast.walk(part):
                    if x is stmt_or_expr:
                        return n.id
        return None

    def _own_parts(self, n: Node):
        s = n.stmt
        if n.kind == "test" and isinstance(s, ast.If):
            return [s.test]
        if n.kind == "test":
            return [s.subject]
        if n.kind == "for":
            return [s.target, s.iter]
        if n.kind == "while":
            return [s.test]
        if n.kind == "with":
            return [i.context_expr for i in s.items] + [i.optional_vars for i in s.items if i.optional_vars]
        if n.kind == "except":
            return [s.type] if s.type is not None else []
        if n.kind == "finally":
            return []
        if isinstance(s, (ast.FunctionDef, ast.AsyncFunctionDef, ast.ClassDef)):
            return []
        return [s]

    def must_pass_through(self, start: int, targets: Set[int], goal: int) -> bool:
        """True iff every path start -> goal contains a node of `targets`."""
        return goal not in self.reachable(start, avoid=set(targets)) or start in targets

    def path_avoiding(self, start: int, goal: int, avoid: Set[int]) -> Optional[List[int]]:
        prev = {start: None}
        stack = [start]
        while stack:
            n = stack.pop()
            if n == goal:
                out = []
                while n is not None:
                    out.append(n)
                    n = prev[n]
                return out[::-1]
            for s in self.nodes[n].succ:
                if s not in prev and s not in avoid:
                    prev[s] = n
                    stack.append(s)
        return None

    def describe(self, path: List[int]) -> List[str]:
        return [f"{self.nodes[i].kind}@{self.nodes[i].lineno}" for i in path]
