"""Self-test cases: seeded mutants (must be reported) and equivalent rewrites (must stay silent).
Edits are textual on the current tree and applied in memory only."""

SYM = "krrood/entity_query_language/symbolic.py"
RQC = "krrood/entity_query_language/result_quantification_constraint.py"
CASES = []


def M(prop, id, file, old, new, expect="", **kw):
    CASES.append(dict(prop=prop, id=id, kind="mutant", file=file, old=old, new=new, expect=expect, **kw))


def R(prop, id, file, old, new, **kw):
    CASES.append(dict(prop=prop, id=id, kind="rewrite", file=file, old=old, new=new, **kw))


# ------------------------------------------------------------------------------------- C09
M("C09", "exactly-gt-to-ge", RQC, "if number_of_solutions > self.value:\n            raise GreaterThanExpectedNumberOfSolutions(quantifier, self.value)\n        elif done",
  "if number_of_solutions >= self.value:\n            raise GreaterThanExpectedNumberOfSolutions(quantifier, self.value)\n        elif done", "QC-TABLE@Exactly")
M("C09", "atleast-lt-to-le", RQC, "class AtLeast", "class AtLeast", "QC-TABLE@AtLeast", count=1) if False else None
M("C09", "atleast-drop-done", RQC, "        if done and number_of_solutions < self.value:\n            raise LessThanExpectedNumberOfSolutions(\n                quantifier, self.value, number_of_solutions\n            )\n\n\n@dataclass\nclass AtMost",
  "        if number_of_solutions < self.value:\n            raise LessThanExpectedNumberOfSolutions(\n                quantifier, self.value, number_of_solutions\n            )\n\n\n@dataclass\nclass AtMost", "QC-TABLE@AtLeast")
M("C09", "atmost-only-when-done", RQC, "        if number_of_solutions > self.value:\n            raise GreaterThanExpectedNumberOfSolutions(quantifier, self.value)\n\n\n@dataclass\nclass Range",
  "        if done and number_of_solutions > self.value:\n            raise GreaterThanExpectedNumberOfSolutions(quantifier, self.value)\n\n\n@dataclass\nclass Range", "QC-TABLE@AtMost")
M("C09", "range-drop-upper", RQC, "        self.at_most.assert_satisfaction(number_of_solutions, quantifier, done)\n", "", "QC-TABLE@Range")
M("C09", "exactly-zero-special", RQC, "        if number_of_solutions > self.value:\n            raise GreaterThanExpectedNumberOfSolutions(quantifier, self.value)\n        elif done",
  "        if self.value == 0:\n            return\n        if number_of_solutions > self.value:\n            raise GreaterThanExpectedNumberOfSolutions(quantifier, self.value)\n        elif done", "QC-TABLE@Exactly")
M("C09", "ctor-allow-negative", RQC, "        if self.value < 0:", "        if self.value < -1:", "QC-CTOR", allow_error=True)
M("C09", "ctor-reject-zero", RQC, "        if self.value < 0:", "        if self.value <= 0:", "QC-CTOR")
M("C09", "range-reject-equal", RQC, "if self.at_most.value < self.at_least.value:", "if self.at_most.value <= self.at_least.value:", "QC-CTOR@Range")
M("C09", "path-check-after-yield", SYM,
  "            self._assert_satisfaction_of_quantification_constraints_(\n                result_count, done=False\n            )\n            if self._var_:\n                value[self._id_] = value[self._var_._id_]\n            yield OperationResult(value.bindings, False, self)\n",
  "            if self._var_:\n                value[self._id_] = value[self._var_._id_]\n            yield OperationResult(value.bindings, False, self)\n            self._assert_satisfaction_of_quantification_constraints_(\n                result_count, done=False\n            )\n",
  "QC-PATH")
M("C09", "path-only-at-end", SYM,
  "            self._assert_satisfaction_of_quantification_constraints_(\n                result_count, done=False\n            )\n", "", "QC-PATH")
M("C09", "path-no-final", SYM,
  "        self._assert_satisfaction_of_quantification_constraints_(\n            result_count, done=True\n        )\n", "        pass\n", "QC-PATH")
M("C09", "path-double-count", SYM, "            result_count += 1\n", "            result_count += 2\n", "QC-PATH")
M("C09", "map-swapped", SYM, "        except LessThanExpectedNumberOfSolutions:\n            raise NoSolutionFound(self)\n        except GreaterThanExpectedNumberOfSolutions:\n            raise MultipleSolutionFound(self)",
  "        except LessThanExpectedNumberOfSolutions:\n            raise MultipleSolutionFound(self)\n        except GreaterThanExpectedNumberOfSolutions:\n            raise NoSolutionFound(self)", "QC-MAP")
M("C09", "map-exactly-2", SYM, "default_factory=lambda: Exactly(1)", "default_factory=lambda: Exactly(2)", "QC-MAP")
M("C09", "helper-skip-when-not-done", SYM, "        if self._quantification_constraint_:\n            self._quantification_constraint_.assert_satisfaction(",
  "        if self._quantification_constraint_ and done:\n            self._quantification_constraint_.assert_satisfaction(", "QC-PATH")
R("C09", "exactly-early-return-form", RQC, "        if number_of_solutions > self.value:\n            raise GreaterThanExpectedNumberOfSolutions(quantifier, self.value)\n        elif done and number_of_solutions < self.value:\n            raise LessThanExpectedNumberOfSolutions(",
  "        if not number_of_solutions <= self.value:\n            raise GreaterThanExpectedNumberOfSolutions(quantifier, self.value)\n        if not done:\n            return\n        if self.value > number_of_solutions:\n            raise LessThanExpectedNumberOfSolutions(")
R("C09", "rename-counter", SYM, "result_count", "n_results", count=99)
R("C09", "range-swap-order", RQC, "        self.at_least.assert_satisfaction(number_of_solutions, quantifier, done)\n        self.at_most.assert_satisfaction(number_of_solutions, quantifier, done)\n",
  "        self.at_most.assert_satisfaction(number_of_solutions, quantifier, done)\n        self.at_least.assert_satisfaction(number_of_solutions, quantifier, done)\n")
CASES[:] = [c for c in CASES if c]

# ------------------------------------------------------------------------------------- C19
JS = "krrood/adapters/json_serializer.py"
M("C19", "drop-str-guard", JS, "        if not isinstance(fully_qualified_class_name, str):\n            raise InvalidTypeFormatError(fully_qualified_class_name)\n", "", "rsplit:AttributeError")
M("C19", "drop-empty-module-guard", JS, "        if not module_name or module_name.startswith(\".\"):", "        if module_name.startswith(\".\"):", "import_module:ValueError")
M("C19", "drop-relative-guard", JS, "        if not module_name or module_name.startswith(\".\"):", "        if not module_name:", "import_module:TypeError")
M("C19", "drop-class-guard", JS, "        if not isinstance(target_cls, type):\n            raise ClassNotFoundError(class_name, module_name)\n", "", "issubclass:TypeError")
M("C19", "unknown-module-unconverted", JS, "        except ImportError as exc:\n            raise UnknownModuleError(module_name) from exc", "        except ImportError as exc:\n            raise", "import_module")
M("C19", "getattr-unconverted", JS, "        try:\n            target_cls = getattr(module, class_name)\n        except AttributeError as exc:\n            raise ClassNotFoundError(class_name, module_name) from exc\n",
  "        target_cls = getattr(module, class_name)\n", "getattr:AttributeError")
M("C19", "no-dot-unconverted", JS, "        try:\n            module_name, class_name = fully_qualified_class_name.rsplit(\".\", 1)\n        except ValueError as exc:\n            raise InvalidTypeFormatError(fully_qualified_class_name) from exc\n",
  "        module_name, class_name = fully_qualified_class_name.rsplit(\".\", 1)\n", "unpack")
M("C19", "wrong-error-class", JS, "            raise MissingTypeError()", "            raise KeyError(JSON_TYPE_NAME)", "raise:")
M("C19", "drop-list-dispatch", JS, "        if isinstance(data, list_like_classes):\n            return [from_json(d) for d in data]\n", "", ".get:AttributeError")
M("C19", "error-message-touches-nonclass", JS, "        if not isinstance(target_cls, type):\n            raise ClassNotFoundError(class_name, module_name)\n",
  "        if not isinstance(target_cls, type):\n            raise ClassNotDeserializableError(target_cls)\n", "__name__")
R("C19", "catch-instead-of-guard", JS, "        if not module_name or module_name.startswith(\".\"):\n            raise InvalidTypeFormatError(fully_qualified_class_name)\n\n        try:\n            module = importlib.import_module(module_name)\n        except ImportError as exc:",
  "        try:\n            module = importlib.import_module(module_name)\n        except (ImportError, ValueError, TypeError) as exc:")
R("C19", "try-around-issubclass", JS, "        if not isinstance(target_cls, type):\n            raise ClassNotFoundError(class_name, module_name)\n\n        if issubclass(target_cls, SubclassJSONSerializer):\n            return target_cls._from_json(data, **kwargs)\n",
  "        try:\n            is_serializer = issubclass(target_cls, SubclassJSONSerializer)\n        except TypeError as exc:\n            raise ClassNotFoundError(class_name, module_name) from exc\n        if is_serializer:\n            return target_cls._from_json(data, **kwargs)\n")
R("C19", "rename-tag-var", JS, "fully_qualified_class_name", "tag", count=99)
R("C19", "partition-form", JS, "        try:\n            module_name, class_name = fully_qualified_class_name.rsplit(\".\", 1)\n        except ValueError as exc:\n            raise InvalidTypeFormatError(fully_qualified_class_name) from exc\n        if not module_name or",
  "        module_name, _sep, class_name = fully_qualified_class_name.rpartition(\".\")\n        if not module_name or")
M("C19", "call-from-json-on-any-class", JS, "        if issubclass(target_cls, SubclassJSONSerializer):\n            return target_cls._from_json(data, **kwargs)\n",
  "        if hasattr(target_cls, '__mro__'):\n            return target_cls._from_json(data, **kwargs)\n", "_from_json:AttributeError")

# ------------------------------------------------------------------------------------- C18
UT = "krrood/utils.py"
M("C18", "tag-base-class", JS, "return {JSON_TYPE_NAME: get_full_class_name(self.__class__)}", "return {JSON_TYPE_NAME: get_full_class_name(SubclassJSONSerializer)}", "JS-TAG")
M("C18", "tag-name-only", UT, 'return cls.__module__ + "." + cls.__name__', "return cls.__name__", "JS-TAG")
M("C18", "tag-colon", UT, 'return cls.__module__ + "." + cls.__name__', 'return cls.__module__ + ":" + cls.__name__', "JS-TAG")
M("C18", "uuid-tag-missing", JS, "        JSON_TYPE_NAME: get_full_class_name(type(obj)),\n", "", "JS-TAG")
M("C18", "split-first-dot", JS, 'fully_qualified_class_name.rsplit(".", 1)', 'fully_qualified_class_name.split(".", 1)', "split-last-dot")
M("C18", "writer-skips-falsy-elements", JS, "return [to_json(item) for item in obj]", "return [to_json(item) for item in obj if item]", "to_json#elementwise")
M("C18", "reader-no-recursion", JS, "return [from_json(d) for d in data]", "return list(data)", "from_json#elementwise")
M("C18", "reader-dispatch-on-cls", JS, "return target_cls._from_json(data, **kwargs)", "return cls._from_json(data, **kwargs)", "resolved-class")
M("C18", "registry-key-mismatch", JS, "        self._deserializers[type_class] = deserializer", "        self._deserializers[type_class.__name__] = deserializer", "JSONSerializableTypeRegistry")
M("C18", "getter-wrong-table", JS, "        return self._deserializers.get(type_class)", "        return self._serializers.get(type_class)", "JSONSerializableTypeRegistry")
M("C18", "leaf-drops-bool", JS, "    str,\n    bool,\n    NoneType,", "    str,\n    NoneType,", "json-scalars")
M("C18", "reader-list-before-leaf", JS, "        if isinstance(data, leaf_types):\n            return data\n\n        if isinstance(data, list_like_classes):\n            return [from_json(d) for d in data]\n",
  "        if isinstance(data, list_like_classes):\n            return [from_json(d) for d in data]\n\n        if isinstance(data, leaf_types):\n            return data\n", "dispatch-order")
M("C18", "writer-registry-by-base", JS, "registered_json_serializer = JSONSerializableTypeRegistry().get_serializer(\n        type(obj)\n    )", "registered_json_serializer = JSONSerializableTypeRegistry().get_serializer(\n        type(obj).__mro__[-2]\n    )", "registry-key")
R("C18", "fstring-name", UT, 'return cls.__module__ + "." + cls.__name__', 'return f"{cls.__module__}.{cls.__name__}"')
R("C18", "type-self", JS, "get_full_class_name(self.__class__)", "get_full_class_name(type(self))")
R("C18", "rename-constants", JS, "leaf_types", "scalar_types", count=99)
R("C18", "rpartition", JS, "            module_name, class_name = fully_qualified_class_name.rsplit(\".\", 1)\n", "            module_name, _, class_name = fully_qualified_class_name.rpartition(\".\")\n")

# ------------------------------------------------------------------------------------- C16
PDF = "krrood/ontomatic/property_descriptor/property_descriptor.py"
MCF = "krrood/ontomatic/property_descriptor/monitored_container.py"
M("C16", "clear-before-read", PDF, "            new_values = make_list(value)\n            attr._clear()\n            for v in new_values:", "            attr._clear()\n            for v in make_list(value):", "PD-ALIAS")
M("C16", "set-conversion-setter", PDF, "            new_values = make_list(value)\n", "            new_values = make_set(value)\n", "PD-SEQ")
M("C16", "set-conversion-ensure", PDF, "            for v in make_list(value):\n                monitored_value._add_item", "            for v in set(value):\n                monitored_value._add_item", "PD-SEQ")
M("C16", "insert-no-hook", MCF, "    def insert(self, idx, item):\n        item = self._on_add(item)\n        super().insert(idx, item)\n", "    def insert(self, idx, item):\n        super().insert(idx, item)\n", "MonitoredList.insert#hook")
M("C16", "insert-removed", MCF, "    def insert(self, idx, item):\n        item = self._on_add(item)\n        super().insert(idx, item)\n", "", "MonitoredList.insert#override")
M("C16", "setitem-removed", MCF, "    def __setitem__(self, idx, value):\n        value = self._on_add(value)\n        super().__setitem__(idx, value)\n", "", "MonitoredList.__setitem__#override")
M("C16", "extend-bulk-raw", MCF, "    def extend(self, items):\n        for item in items:\n            self._add_item(item)\n", "    def extend(self, items):\n        super().extend(items)\n", "MonitoredList.extend")
M("C16", "update-first-only", MCF, "    def update(self, values):\n        for value in values:\n            self._add_item(value)\n", "    def update(self, values):\n        values = list(values)\n        if values:\n            self._add_item(values[0])\n        super().update(values[1:])\n", "MonitoredSet.update#each")
M("C16", "add-no-graph", MCF, "    def add(self, value):\n        self._add_item(value)\n", "    def add(self, value):\n        self._add_item(value, add_relation_to_the_graph=False)\n", "MonitoredSet.add#not-suppressed")
M("C16", "append-hook-no-store", MCF, "        item = self._on_add(\n            item, inferred=inferred, add_relation_to_the_graph=add_relation_to_the_graph\n        )\n        super().append(item)\n", "        item = self._on_add(\n            item, inferred=inferred, add_relation_to_the_graph=add_relation_to_the_graph\n        )\n", "#store")
M("C16", "default-graph-off", MCF, "    def _add_item(\n        self, value, inferred: bool = False, add_relation_to_the_graph: bool = True\n    ):", "    def _add_item(\n        self, value, inferred: bool = False, add_relation_to_the_graph: bool = False\n    ):", "default-records")
M("C16", "hook-needs-nonempty", MCF, "        if owner is not None and add_relation_to_the_graph:", "        if owner is not None and add_relation_to_the_graph and len(self) > 0:", "MC-HOOK", allow_error=True)
M("C16", "hook-records-inferred", MCF, "self._descriptor.add_relation_to_the_graph(owner, value, inferred=inferred)", "self._descriptor.add_relation_to_the_graph(owner, value, inferred=True)", "MC-HOOK")
M("C16", "single-no-record", PDF, "            setattr(obj, self.private_attr_name, value)\n            self.add_relation_to_the_graph(obj, value)\n", "            setattr(obj, self.private_attr_name, value)\n", "PD-SINGLE")
M("C16", "setter-repopulate-silent", PDF, "                attr._add_item(v, inferred=False)\n        else:", "                attr._add_item(v, inferred=False, add_relation_to_the_graph=False)\n        else:", "PD-AUG")
R("C16", "identity-guard-instead-of-snapshot", PDF, "            new_values = make_list(value)\n            attr._clear()\n            for v in new_values:\n                attr._add_item(v, inferred=False)\n",
  "            if value is not attr:\n                attr._clear()\n                for v in make_list(value):\n                    attr._add_item(v, inferred=False)\n")
R("C16", "explicit-iadd", MCF, "    def append(self, item):\n        self._add_item(item)\n", "    def append(self, item):\n        self._add_item(item)\n\n    def __iadd__(self, items):\n        self.extend(items)\n        return self\n")
R("C16", "rename-loop-var", MCF, "        for item in items:\n            self._add_item(item)\n", "        for element in items:\n            self._add_item(element)\n")
R("C16", "tuple-snapshot", PDF, "            new_values = make_list(value)\n", "            new_values = tuple(make_list(value))\n")

# ------------------------------------------------------------------------------------- C12
PRF = "krrood/entity_query_language/predicate.py"
M("C12", "symfun-default-flag", PRF, "            function, args, kwargs, ignore_first=False\n", "            function, args, kwargs\n", "wrapper#ignore_first")
M("C12", "predicate-flag-false", PRF, "            cls.__init__, args, kwargs, ignore_first=True\n", "            cls.__init__, args, kwargs, ignore_first=False\n", "Predicate.__new__#ignore_first")
M("C12", "merge-default-flip-only", PRF, "function: Callable, args, kwargs, ignore_first: bool = True", "function: Callable, args, kwargs, ignore_first: bool = False", "", allow_error=False) if False else None
M("C12", "merge-start-swapped", PRF, "starting_index = 1 if ignore_first else 0", "starting_index = 0 if ignore_first else 1", "merge_args_and_kwargs#slice")
M("C12", "merge-drops-kwargs", PRF, "    all_kwargs.update(kwargs)\n", "", "kwargs-override")
M("C12", "symbolic-test-kwargs-only", PRF, "        if _any_of_the_kwargs_is_a_variable(all_kwargs):\n            return Variable(\n                _name__=function.__name__,", "        if _any_of_the_kwargs_is_a_variable(kwargs):\n            return Variable(\n                _name__=function.__name__,", "wrapper#symbolic-test")
M("C12", "symbolic-runs-function", PRF, "            return Variable(\n                _name__=function.__name__,\n                _type_=function,", "            function(*args, **kwargs)\n            return Variable(\n                _name__=function.__name__,\n                _type_=function,", "symbolic-runs-nothing")
M("C12", "concrete-drops-kwargs", PRF, "        return function(*args, **kwargs)", "        return function(*args)", "concrete-branch")
M("C12", "variable-loses-kwargs", PRF, "                _type_=cls,\n                _name__=cls.__name__,\n                _kwargs_=all_kwargs,", "                _type_=cls,\n                _name__=cls.__name__,\n                _kwargs_=kwargs,", "Predicate.__new__#symbolic-branch")
M("C12", "predicate-not-called", SYM, "            if self._predicate_type_ == PredicateType.SubClassOfPredicate:\n                instance = instance()\n", "", "predicate-called")
M("C12", "truth-inverted", SYM, "return OperationResult(values, not bool(instance), self)", "return OperationResult(values, bool(instance), self)", "truth")
M("C12", "double-invocation", SYM, "            instance = self._type_(**{k: hv.value for k, hv in bound_kwargs.items()})\n", "            instance = self._type_(**{k: hv.value for k, hv in bound_kwargs.items()})\n            instance = self._type_(**{k: hv.value for k, hv in bound_kwargs.items()})\n", "one-keyword-call")
M("C12", "any-to-all", SYM, "    return any(\n        isinstance(binding, CanBehaveLikeAVariable) for binding in bindings.values()\n    )", "    return all(\n        isinstance(binding, CanBehaveLikeAVariable) for binding in bindings.values()\n    )", "any-value")
R("C12", "flag-positional", PRF, "            function, args, kwargs, ignore_first=False\n", "            function, args, kwargs, False\n")
R("C12", "rename-merged", PRF, "all_kwargs", "merged", count=99)
CASES[:] = [c for c in CASES if c]

# ------------------------------------------------------------------------------------- C14
SGF = "krrood/entity_query_language/symbol_graph.py"
PRL = "krrood/ontomatic/property_descriptor/property_descriptor_relation.py"
M("C14", "no-relation-purge", SGF, "        for source, target, relation in list(\n            self._instance_graph.in_edges(index)\n        ) + list(self._instance_graph.out_edges(index)):\n            self._relation_index.get(relation.wrapped_field, set()).discard(\n                (source, target)\n            )\n", "", "_relation_index")
M("C14", "pop-by-dead-id", SGF, "        if self._instance_index.get(wrapped_instance.instance_id) is wrapped_instance:\n            del self._instance_index[wrapped_instance.instance_id]\n", "        self._instance_index.pop(id(wrapped_instance.instance), None)\n", "removal-key")
M("C14", "unconditional-delete", SGF, "        if self._instance_index.get(wrapped_instance.instance_id) is wrapped_instance:\n            del self._instance_index[wrapped_instance.instance_id]\n", "        self._instance_index.pop(wrapped_instance.instance_id, None)\n", "own-entry")
M("C14", "no-index-purge", SGF, "        if self._instance_index.get(wrapped_instance.instance_id) is wrapped_instance:\n            del self._instance_index[wrapped_instance.instance_id]\n", "", "_instance_index")
M("C14", "no-class-list-purge", SGF, "        self._class_to_wrapped_instances[wrapped_instance.instance_type].remove(\n            wrapped_instance\n        )\n", "", "_class_to_wrapped_instances")
M("C14", "lookup-unvalidated", SGF, "        if wrapped_instance is not None and wrapped_instance.instance is not instance:\n            return None\n", "", "lookup")
M("C14", "exists-source-only", SGF, "        return (\n            relation.source.index,\n            relation.target.index,\n        ) in self._relation_index.get(relation.wrapped_field, set())", "        return any(\n            s == relation.source.index\n            for s, _ in self._relation_index.get(relation.wrapped_field, set())\n        )", "relation-key")
M("C14", "index-swapped-pair", SGF, "        self._relation_index[relation.wrapped_field].add(\n            (relation.source.index, relation.target.index)\n        )", "        self._relation_index[relation.wrapped_field].add(\n            (relation.target.index, relation.source.index)\n        )", "relation-key")
M("C14", "add-returns-false", SGF, "            (relation.source.index, relation.target.index)\n        )\n        return True", "            (relation.source.index, relation.target.index)\n        )\n        return False", "new->True")
M("C14", "index-not-recorded", SGF, "        if relation.wrapped_field not in self._relation_index:\n            self._relation_index[relation.wrapped_field] = set()\n        self._relation_index[relation.wrapped_field].add(\n            (relation.source.index, relation.target.index)\n        )\n", "", "")
M("C14", "infer-ungated", PRL, "        if super().add_to_graph():\n            if self.inferred:\n                self.update_source_wrapped_field_value()\n            self.infer_super_relations()", "        if super().add_to_graph():\n            if self.inferred:\n                self.update_source_wrapped_field_value()\n        if True:\n            self.infer_super_relations()", "gate")
M("C14", "exists-by-field-name", SGF, "        ) in self._relation_index.get(relation.wrapped_field, set())", "        ) in self._relation_index.get(relation.wrapped_field.name, set())", "relation-index-field-key")
R("C14", "purge-by-scan", SGF, "        for source, target, relation in list(\n            self._instance_graph.in_edges(index)\n        ) + list(self._instance_graph.out_edges(index)):\n            self._relation_index.get(relation.wrapped_field, set()).discard(\n                (source, target)\n            )\n",
  "        for pairs in self._relation_index.values():\n            pairs.difference_update({p for p in pairs if index in p})\n")
R("C14", "rename-param", SGF, "wrapped_instance.index = self._instance_graph.add_node(wrapped_instance)", "wrapped_instance.index = self._instance_graph.add_node(wrapped_instance)")

# ------------------------------------------------------------------------------------- C13
ENT = "krrood/entity_query_language/entity.py"
M("C13", "dedupe-removed", UT, "    return list(dict.fromkeys(subclasses))\n", "    return subclasses\n", "each-class-once")
M("C13", "register-skipped-for-some", PRF, "        instance = super().__new__(cls)\n        update_cache(instance)\n        return instance", "        instance = super().__new__(cls)\n        if kwargs:\n            update_cache(instance)\n        return instance", "SG-REGISTER")
M("C13", "register-removed", PRF, "        instance = super().__new__(cls)\n        update_cache(instance)\n        return instance", "        instance = super().__new__(cls)\n        return instance", "SG-REGISTER")
M("C13", "predicate-bypasses-symbol-new", PRF, "        return super().__new__(cls)\n\n    @abstractmethod", "        return object.__new__(cls)\n\n    @abstractmethod", "SG-REGISTER")
M("C13", "update-cache-only-dataclasses", PRF, "    if not isinstance(instance, Predicate):\n        SymbolGraph().add_node(WrappedInstance(instance))", "    if not isinstance(instance, Predicate) and hasattr(instance, '__dataclass_fields__'):\n        SymbolGraph().add_node(WrappedInstance(instance))", "update_cache")
M("C13", "lookup-without-subclasses", SGF, "            for cls in [type_] + recursive_subclasses(type_)\n", "            for cls in [type_]\n", "type-and-subclasses")
M("C13", "lookup-direct-subclasses-only", UT, "    subclasses = cls.__subclasses__() + [\n        g for s in cls.__subclasses__() for g in recursive_subclasses(s)\n    ]", "    subclasses = cls.__subclasses__() + []", "transitive")
M("C13", "no-sweep", SYM, "        SymbolGraph().remove_dead_instances()\n        yield from map(self._process_result_, self._evaluate__())", "        yield from map(self._process_result_, self._evaluate__())", "sweep-first")
M("C13", "sweep-after", SYM, "        SymbolGraph().remove_dead_instances()\n        yield from map(self._process_result_, self._evaluate__())", "        yield from map(self._process_result_, self._evaluate__())\n        SymbolGraph().remove_dead_instances()", "sweep-first")
M("C13", "sweep-only-inferred", SGF, "            if node.instance is None:\n                self.remove_node(node)", "            if node.instance is None and node.inferred:\n                self.remove_node(node)", "all-dead-nodes")
R("C13", "dedupe-by-seen-list", UT, "    subclasses = cls.__subclasses__() + [\n        g for s in cls.__subclasses__() for g in recursive_subclasses(s)\n    ]\n    # a class that is reachable through several bases (diamond inheritance) is found more than once\n    return list(dict.fromkeys(subclasses))\n",
  "    result = []\n    for s in cls.__subclasses__():\n        for g in [s] + recursive_subclasses(s):\n            if g not in result:\n                result.append(g)\n    return result\n")
R("C13", "for-loop-lookup", SGF, "        yield from (\n            instance.instance\n            for cls in [type_] + recursive_subclasses(type_)\n            for instance in list(self._class_to_wrapped_instances[cls])\n        )",
  "        for cls in [type_] + recursive_subclasses(type_):\n            for instance in list(self._class_to_wrapped_instances[cls]):\n                yield instance.instance")

# ------------------------------------------------------------------------------------- C15
M("C15", "owner-swap-back", PRL, "                self.source,\n                nxt_relation.target,\n                self.wrapped_field,", "                self.source,\n                nxt_relation.target,\n                nxt_relation.wrapped_field,", "PD-OWNER")
M("C15", "owner-incoming-wrong", PRL, "                nxt_relation.source,\n                self.target,\n                nxt_relation.wrapped_field,", "                nxt_relation.source,\n                self.target,\n                self.wrapped_field,", "PD-OWNER")
M("C15", "drop-incoming-direction", PRL, "            self.infer_transitive_relations_outgoing_from_source()\n            self.infer_transitive_relations_incoming_to_target()\n", "            self.infer_transitive_relations_outgoing_from_source()\n", "incoming")
M("C15", "drop-outgoing-direction", PRL, "            self.infer_transitive_relations_outgoing_from_source()\n            self.infer_transitive_relations_incoming_to_target()\n", "            self.infer_transitive_relations_incoming_to_target()\n", "outgoing")
M("C15", "drop-inverse", PRL, "            self.infer_super_relations()\n            self.infer_inverse_relation()\n", "            self.infer_super_relations()\n", "calls-inverse")
M("C15", "drop-super", PRL, "            self.infer_super_relations()\n            self.infer_inverse_relation()\n", "            self.infer_inverse_relation()\n", "calls-super")
M("C15", "no-write-back", PRL, "            if self.inferred:\n                self.update_source_wrapped_field_value()\n", "", "write-back")
M("C15", "inferred-not-marked", PRL, "                super_domain, self.target, super_field, inferred=True\n", "                super_domain, self.target, super_field, inferred=False\n", "inferred-flag")
M("C15", "transitive-wrong-neighbourhood", PRL, "        yield from SymbolGraph().get_outgoing_relations_with_condition(\n            self.target, relation_condition\n        )", "        yield from SymbolGraph().get_outgoing_relations_with_condition(\n            self.source, relation_condition\n        )", "outgoing")
M("C15", "super-drops-role-taker", PRL, "        yield from self.direct_super_relations\n        yield from self.role_taker_super_relations\n", "        yield from self.direct_super_relations\n", "both-sources")
M("C15", "inferred-bypass-procedure", PRL, "            self.__class__(\n                inverse_domain, self.source, inverse_field, inferred=True\n            ).add_to_graph()", "            SymbolGraph().add_relation(self.__class__(\n                inverse_domain, self.source, inverse_field, inferred=True\n            ))", "")
M("C15", "transitive-any-property", PRL, "        relation_condition = (\n            lambda relation: relation.property_descriptor_cls\n            is self.property_descriptor_cls\n        )\n        yield from SymbolGraph().get_outgoing", "        relation_condition = (\n            lambda relation: True\n        )\n        yield from SymbolGraph().get_outgoing", "same-property")
M("C15", "super-pairs-wrong-class", PRL, "            for f in property_descriptor_cls.get_fields_of_superproperties(source_type)", "            for f in property_descriptor_cls.get_fields_of_superproperties(self.target.instance_type)", "PD-OWNER")
R("C15", "type-self-ctor", PRL, "            self.__class__(\n                inverse_domain,", "            type(self)(\n                inverse_domain,")

# ------------------------------------------------------------------------------------- C17
CDF = "krrood/class_diagrams/class_diagram.py"
WFF = "krrood/class_diagrams/wrapped_field.py"
AIF = "krrood/class_diagrams/attribute_introspector.py"
M("C17", "shared-graph", CDF, "        result._dependency_graph = self._dependency_graph.copy()\n", "", "CD-READONLY")
M("C17", "view-clears-cache-map", CDF, "        wrapped_cls = self.get_wrapped_class(clazz)\n        yield from self.get_out_edges(wrapped_cls)", "        wrapped_cls = self.get_wrapped_class(clazz)\n        self._cls_wrapped_cls_map.pop(None, None)\n        yield from self.get_out_edges(wrapped_cls)", "CD-READONLY")
M("C17", "optional-any-union", WFF, "            return len(args) == 2 and NoneType in args", "            return NoneType in args or len(args) == 2", "") if False else None
M("C17", "optional-requires-first-none", WFF, "            return len(args) == 2 and NoneType in args", "            return len(args) == 2 and args[0] is NoneType", "WF-TABLE")
M("C17", "builtin-drops-datetime", WFF, "[int, float, str, bool, datetime, NoneType]", "[int, float, str, bool, NoneType]", "WF-TABLE")
M("C17", "container-drops-set", WFF, "container_types: ClassVar[List[Type]] = [list, set, tuple, type, Sequence]", "container_types: ClassVar[List[Type]] = [list, tuple, type, Sequence]", "WF-TABLE")
M("C17", "one-to-many-includes-optional", WFF, "        return self.is_container and not self.is_builtin_type and not self.is_optional", "        return (self.is_container or self.is_optional) and not self.is_builtin_type", "WF-TABLE")
# (an `is_enum` that looks through containers differs only for List[Enum], outside the documented grammar: equivalent mutant, not listed)
M("C17", "endpoint-not-unwrapped-optional", WFF, "        if self.is_container or self.is_optional:\n            return self.contained_type", "        if self.is_container:\n            return self.contained_type", "WF-TABLE")
M("C17", "type-type-as-list", WFF, "        return get_origin(self.resolved_type) is type", "        return get_origin(self.resolved_type) is list", "WF-TABLE")
M("C17", "inherit-first-base-only", CDF, "            for superclass in clazz.clazz.__bases__:", "            for superclass in clazz.clazz.__bases__[:1]:", "CD-EDGES")
M("C17", "inherit-mro-instead-of-bases", CDF, "            for superclass in clazz.clazz.__bases__:", "            for superclass in clazz.clazz.__mro__[1:]:", "CD-EDGES")
M("C17", "assoc-skip-optional", CDF, "                target_type = wrapped_field.type_endpoint\n", "                target_type = wrapped_field.type_endpoint\n                if wrapped_field.is_optional:\n                    continue\n", "every-mapped-endpoint")
M("C17", "assoc-reversed", CDF, "                    field=wrapped_field,\n                    source=clazz,\n                    target=wrapped_target_class,", "                    field=wrapped_field,\n                    source=wrapped_target_class,\n                    target=clazz,", "orientation")
M("C17", "inherit-reversed", CDF, "                        source=source,\n                        target=clazz,", "                        source=clazz,\n                        target=source,", "orientation")
M("C17", "private-fields-included", AIF, "                for f in dc_fields(owner_cls)\n                if not f.name.startswith(\"_\")\n", "                for f in dc_fields(owner_cls)\n", "public-fields")
M("C17", "role-taker-any-class", CDF, "                if wrapped_field.is_role_taker and issubclass(clazz.clazz, Role):", "                if wrapped_field.is_role_taker:", "role-taker", allow_error=True)
R("C17", "deepcopy-graph", CDF, "        result._dependency_graph = self._dependency_graph.copy()\n", "        result._dependency_graph = rx.PyDiGraph.copy(self._dependency_graph)\n")
R("C17", "optional-form", WFF, "            return len(args) == 2 and NoneType in args", "            return NoneType in args and len(args) == 2")
CASES[:] = [c for c in CASES if c]

# ------------------------------------------------------------------------------------- C06
WTF = "krrood/ormatic/wrapped_table.py"
OMF = "krrood/ormatic/ormatic.py"
M("C06", "no-builtins-import", OMF, "        self.imported_modules.add(int.__module__)\n", "", "ORM-IMPORTS@WrappedTable.primary_key#builtins")
M("C06", "json-endpoint-import", WTF, "        self.ormatic.imported_modules.add(wrapped_field.type_endpoint.__module__)\n        column_name", "        column_name", "create_json_column#endpoint")
M("C06", "builtin-column-import-dropped", WTF, "        self.ormatic.imported_modules.add(wrapped_field.type_endpoint.__module__)\n        inner_type", "        inner_type", "create_builtin_column#endpoint")
M("C06", "imports-plain-set", OMF, "imported_modules: SortedSet[str] = field(default_factory=SortedSet, init=False)", "imported_modules: SortedSet[str] = field(default_factory=set, init=False)", "ORM-DETERMINISM")
M("C06", "tables-from-set", OMF, "        for wrapped_clazz in self.wrapped_classes_in_topological_order:\n", "        for wrapped_clazz in set(self.wrapped_classes_in_topological_order):\n", "ORM-DETERMINISM")
M("C06", "enum-after-one-to-one", WTF, "        elif (\n            wrapped_field.is_builtin_type or wrapped_field.is_enum\n        ) and not wrapped_field.is_container:", "        elif wrapped_field.is_builtin_type and not wrapped_field.is_container:", "parse_field#enum")
M("C06", "optional-reference-dropped", WTF, "            wrapped_field.is_one_to_one_relationship\n            and wrapped_field.type_endpoint in self.ormatic.mapped_classes\n        ):", "            wrapped_field.is_one_to_one_relationship\n            and not wrapped_field.is_optional\n            and wrapped_field.type_endpoint in self.ormatic.mapped_classes\n        ):", "parse_field#optional-mapped")
M("C06", "json-before-type", WTF, "        if wrapped_field.is_type_type:\n            logger.info(f\"Parsing as type.\")\n            self.create_type_type_column(wrapped_field)\n\n        elif (", "        if False:\n            pass\n        elif (", "parse_field#type-of")
M("C06", "set-collection-dropped", WTF, "        elif wrapped_field.is_one_to_many_relationship:\n            logger.info(f\"Parsing as one to many relationship.\")", "        elif wrapped_field.is_one_to_many_relationship and wrapped_field.container_type is list:\n            logger.info(f\"Parsing as one to many relationship.\")", "parse_field#collection-of-mapped", allow_error=True)
M("C06", "private-not-skipped", WTF, "            if f.field.name.startswith(\"_\"):\n                logger.info(f\"Skipping since the field starts with _.\")\n                continue\n", "", "private-skipped")
M("C06", "skip-dunder-and-more", WTF, "            if f.field.name.startswith(\"_\"):", "            if f.field.name.startswith(\"_\") or f.field.name.endswith(\"_\"):", "parse_fields")
M("C06", "no-identity-for-child", WTF, "        if self.parent_table is not None:\n            self.mapper_args.update(\n                {\n                    \"'polymorphic_identity'\": f\"'{self.tablename}'\",\n                }\n            )", "        if self.parent_table is not None:\n            pass", "create_mapper_args")
M("C06", "root-polymorphic-only-joined", WTF, "        if self.parent_table is None and self.has_children:", "        if self.parent_table is None and self.has_children and self.ormatic.inheritance_strategy == InheritanceStrategy.JOINED:", "create_mapper_args")
M("C06", "assoc-name-without-field", WTF, "            f\"{self.tablename.lower()}_{wrapped_field.field.name}_association\"", "            f\"{self.tablename.lower()}_{target_wrapped_table.tablename.lower()}_association\"", "association-table-name", allow_error=True)
R("C06", "builtins-literal", OMF, "        self.imported_modules.add(int.__module__)\n", "        self.imported_modules.add(\"builtins\")\n")
R("C06", "dispatch-reorder-independent", WTF, "            wrapped_field.is_collection_of_builtins\n            or wrapped_field.type_endpoint in self.ormatic.type_mappings\n            and wrapped_field.is_container", "            (wrapped_field.type_endpoint in self.ormatic.type_mappings\n            and wrapped_field.is_container) or wrapped_field.is_collection_of_builtins")

# ------------------------------------------------------------------------------------- C20
HDF = "krrood/entity_query_language/hashed_data.py"
M("C20", "strong-instance-field", SGF, "    instance: InitVar[Symbol]\n", "    instance: Symbol\n", "WrappedInstance.instance#initvar")
M("C20", "strong-instance-reference", SGF, "        self.instance_reference = weakref.ref(instance)\n", "        self.instance_reference = lambda: instance\n", "WrappedInstance.__post_init__#weakref")
M("C20", "module-level-result-cache", SYM, "id_generator = IDGenerator()\n", "id_generator = IDGenerator()\n_result_cache: Dict[int, OperationResult] = {}\n\n\ndef _remember(r):\n    _result_cache[id(r)] = r\n", "STRONG-REF@symbolic._result_cache")
M("C20", "classvar-last-instances", SGF, "    _relation_index: Dict[WrappedField, set[tuple[int, int]]] = field(\n        default_factory=dict, init=False, repr=False\n    )\n", "    _relation_index: Dict[WrappedField, set[tuple[int, int]]] = field(\n        default_factory=dict, init=False, repr=False\n    )\n    _strong_instances: List[Any] = field(default_factory=list, init=False)\n", "STRONG-REF@SingletonMeta._instances")
M("C20", "owner-bound-strongly", MCF, "        self._owner_ref = weakref_ref(owner)\n", "        self._owner_ref = lambda: owner\n", "MonitoredContainer._bind_owner#weak")
M("C20", "lru-on-get-wrapped", SGF, "    def get_wrapped_instance(self, instance: Any) -> Optional[WrappedInstance]:", "    @lru_cache(maxsize=None)\n    def get_wrapped_instance(self, instance: Any) -> Optional[WrappedInstance]:", "lru_cache:SymbolGraph.get_wrapped_instance")
M("C20", "no-relation-purge", SGF, "        for source, target, relation in list(\n            self._instance_graph.in_edges(index)\n        ) + list(self._instance_graph.out_edges(index)):\n            self._relation_index.get(relation.wrapped_field, set()).discard(\n                (source, target)\n            )\n", "", "_relation_index")
R("C20", "new-classvar-of-types", SGF, "    _relation_index: Dict[WrappedField, set[tuple[int, int]]] = field(", "    known_types: ClassVar[Dict[str, Type]] = {}\n    _relation_index: Dict[WrappedField, set[tuple[int, int]]] = field(")

# ------------------------------------------------------------------------------------- C04
DAOF = "krrood/ormatic/dao.py"
M("C04", "from-state-no-keepalive", DAOF, "        self.keep_alive[id(dao_obj)] = dao_obj\n", "", "IDKEY@FromDAOState.allocate_and_memoize")
M("C04", "to-state-no-keepalive", DAOF, "        self.memo[oid] = result\n        self.keep_alive[oid] = obj\n", "        self.memo[oid] = result\n", "IDKEY@ToDAOState.register")
M("C04", "register-after-descent", DAOF, "        if register:\n            state.register(obj, result)\n\n        # choose the correct building method\n        if alt_base is not None:\n            result.to_dao_if_subclass_of_alternative_mapping(\n                obj=dao_obj, base=alt_base, state=state\n            )\n        else:\n            result.to_dao_default(obj=dao_obj, state=state)\n",
  "        # choose the correct building method\n        if alt_base is not None:\n            result.to_dao_if_subclass_of_alternative_mapping(\n                obj=dao_obj, base=alt_base, state=state\n            )\n        else:\n            result.to_dao_default(obj=dao_obj, state=state)\n\n        if register:\n            state.register(obj, result)\n", "register-before-descent")
M("C04", "no-memo-lookup", DAOF, "        existing = state.get_existing(obj)\n        if existing is not None:\n            return existing\n", "", "to_dao#lookup-first")
M("C04", "register-default-off", DAOF, "        register=True,\n    ) -> _DAO:", "        register=False,\n    ) -> _DAO:", "register-before-descent")
M("C04", "from-dao-no-lookup", DAOF, "        if state.has(self):\n            return state.get(self)\n", "", "from_dao#lookup-first")
M("C04", "from-dao-allocate-late", DAOF, "        result = self._allocate_uninitialized_and_memoize(state)\n        mapper: sqlalchemy.orm.Mapper = sqlalchemy.inspection.inspect(type(self))\n\n        argument_names = self._argument_names()\n        kwargs = self._collect_scalar_kwargs(mapper, argument_names)\n\n        rel_kwargs, circular_refs = self._collect_relationship_kwargs(\n            mapper, argument_names, state\n        )\n",
  "        mapper: sqlalchemy.orm.Mapper = sqlalchemy.inspection.inspect(type(self))\n\n        argument_names = self._argument_names()\n        kwargs = self._collect_scalar_kwargs(mapper, argument_names)\n\n        rel_kwargs, circular_refs = self._collect_relationship_kwargs(\n            mapper, argument_names, state\n        )\n        result = self._allocate_uninitialized_and_memoize(state)\n", "memoize-before-descent")
M("C04", "construct-instead-of-new", DAOF, "        result = original_cls.__new__(original_cls)\n        self.memo[id(dao_obj)] = result", "        result = original_cls()\n        self.memo[id(dao_obj)] = result", "allocate_and_memoize#shape")
M("C04", "reader-onetomany-always-list", DAOF, "            if relationship.direction == MANYTOONE or (\n                relationship.direction == ONETOMANY and not relationship.uselist\n            ):\n                parsed, is_circular", "            if relationship.direction == MANYTOONE:\n                parsed, is_circular", "relationships#ONETOMANY,uselist=False")
M("C04", "writer-drops-manytomany", DAOF, "            elif relationship.direction in (ONETOMANY, MANYTOMANY):\n                self._extract_collection_relationship(", "            elif relationship.direction in (ONETOMANY,):\n                self._extract_collection_relationship(", "relationships#MANYTOMANY")
M("C04", "circular-by-equality", DAOF, "        return parsed, parsed is self.memo.get(id(value))", "        return parsed, parsed == self.memo.get(id(value))", "parse_single#identity")
R("C04", "keepalive-list", DAOF, "        self.keep_alive[id(dao_obj)] = dao_obj\n", "        self.keep_alive[len(self.keep_alive)] = dao_obj\n") if False else None
R("C04", "rename-existing", DAOF, "        existing = state.get_existing(obj)\n        if existing is not None:\n            return existing\n", "        found = state.get_existing(obj)\n        if found is not None:\n            return found\n")
CASES[:] = [c for c in CASES if c]

# ------------------------------------------------------------------------------------- C07
EQF = "krrood/ormatic/eql_interface.py"
M("C07", "operand-passthrough", EQF, "        raise UnsupportedQueryTypeError(\n            f\"Unsupported comparator operand type: {type(operand)}\"\n        )\n", "        return operand\n", "_translate_comparator_operand#default")
M("C07", "setof-unguarded", EQF, "        if not isinstance(self.select_like, Entity):\n            raise UnsupportedQueryTypeError(\n                f\"Only queries over a single entity can be translated, got {type(self.select_like)}\"\n            )\n", "", "select_like.selected_variable")
M("C07", "unknown-condition-ignored", EQF, "        raise UnsupportedQueryTypeError(f\"Unknown query type: {type(query)}\")", "        return None", "translate_query#default")
M("C07", "unknown-condition-wrong-error", EQF, "        raise UnsupportedQueryTypeError(f\"Unknown query type: {type(query)}\")", "        raise NotImplementedError(f\"Unknown query type: {type(query)}\")", "translate_query#default")
M("C07", "ge-as-gt", EQF, "        if operation is operator.ge or operator_name == \"ge\":\n            return left >= right", "        if operation is operator.ge or operator_name == \"ge\":\n            return left > right", "operator.ge")
M("C07", "lt-swapped-operands", EQF, "        if operation is operator.lt or operator_name == \"lt\":\n            return left < right", "        if operation is operator.lt or operator_name == \"lt\":\n            return right < left", "operator.lt")
M("C07", "ne-dropped", EQF, "        if operation is operator.ne or operator_name == \"ne\":\n            return left != right\n", "", "operator.ne")
M("C07", "unknown-op-as-eq", EQF, "        raise UnsupportedOperatorError(f\"Unknown operator: {operation}\")", "        return left == right", "#unknown")
M("C07", "the-as-first", EQF, "            return bound_query.one()", "            return bound_query.first()", "the-one-an-all")
M("C07", "unknown-quantifier-all", EQF, "        raise UnsupportedQuantifierError(f\"Unknown quantifier: {type(self.quantifier)}\")", "        return bound_query.all()", "evaluate#quantifier")
R("C07", "guard-with-tuple", EQF, "        if not isinstance(self.select_like, Entity):", "        if not isinstance(self.select_like, (Entity,)):")

# ------------------------------------------------------------------------------------- C11
MTF = "krrood/entity_query_language/match.py"
M("C11", "exists-by-value", SYM, "            binding = tuple(val[i].id_ for i in variable_ids if i in val)\n            if val.is_true and binding not in seen_variable_bindings:\n                seen_variable_bindings.add(binding)\n", "            binding = val[self.variable._id_].value\n            if val.is_true and binding not in seen_variable_bindings:\n                seen_variable_bindings.add(binding)\n", "IDENT-DEDUP", allow_error=True)
M("C11", "exists-list-of-values", SYM, "        seen_variable_bindings = set()\n        for val in self.condition._evaluate__(sources, parent=self):\n            binding = tuple(val[i].id_ for i in variable_ids if i in val)\n            if val.is_true and binding not in seen_variable_bindings:\n                seen_variable_bindings.add(binding)\n",
  "        seen_variable_bindings = []\n        for val in self.condition._evaluate__(sources, parent=self):\n            var_val = val[self.variable._id_]\n            if val.is_true and var_val.value not in seen_variable_bindings:\n                seen_variable_bindings.append(var_val.value)\n", "IDENT-DEDUP")
M("C11", "contains-swapped", MTF, "            condition = contains(self.attr, self.assigned_variable)\n", "            condition = contains(self.assigned_variable, self.attr)\n", "MATCH-TABLE")
M("C11", "in-becomes-eq", MTF, "            condition = in_(self.attr, self.assigned_variable)\n", "            condition = self.attr == self.assigned_variable\n", "MATCH-TABLE")
M("C11", "universal-ignored", MTF, "            and not (\n                isinstance(self.assigned_value, Match) and self.assigned_value.universal\n            )\n", "", "MATCH-TABLE")
M("C11", "existential-dropped", MTF, "        if isinstance(self.assigned_value, Match) and self.assigned_value.existential:\n            condition = exists(self.attr, condition)\n", "", "MATCH-TABLE")
M("C11", "existential-always", MTF, "        if isinstance(self.assigned_value, Match) and self.assigned_value.existential:", "        if isinstance(self.assigned_value, Match):", "MATCH-TABLE")
M("C11", "type-filter-for-same-type", MTF, "            (self.assigned_value.type_ and self.assigned_value.type_ is not attr_type)\n            and issubclass(self.assigned_value.type_, attr_type)", "            self.assigned_value.type_\n            and issubclass(self.assigned_value.type_, attr_type)", "is_type_filter_needed")
M("C11", "type-filter-never-when-typed", MTF, "        return (not attr_type) or (", "        return (not attr_type) and (", "is_type_filter_needed")
M("C11", "no-flatten-for-nested", MTF, "        if self.attr._is_iterable_ and (\n            self.assigned_value.kwargs or self.is_type_filter_needed\n        ):", "        if self.attr._is_iterable_ and self.is_type_filter_needed:", "resolve")
M("C11", "filter-on-unflattened", MTF, "                HasType(possibly_flattened_attr, self.assigned_value.type_)", "                HasType(self.attr, self.assigned_value.type_)", "resolve")
M("C11", "in-operands-swapped", ENT, "    return Comparator(container, item, operator.contains)", "    return Comparator(item, container, operator.contains)", "in_#slots")
M("C11", "contains-not-swapping", ENT, "    return in_(item, container)", "    return in_(container, item)", "contains#slots")
R("C11", "elif-reordered", MTF, "        if self.attr._is_iterable_ and not self.is_iterable_value:\n            condition = contains(self.attr, self.assigned_variable)\n        elif not self.attr._is_iterable_ and self.is_iterable_value:\n            condition = in_(self.attr, self.assigned_variable)\n",
  "        if not self.attr._is_iterable_ and self.is_iterable_value:\n            condition = in_(self.attr, self.assigned_variable)\n        elif self.attr._is_iterable_ and not self.is_iterable_value:\n            condition = contains(self.attr, self.assigned_variable)\n")

# ------------------------------------------------------------------------------------- C08
RLF = "krrood/entity_query_language/rule.py"
CSF = "krrood/entity_query_language/conclusion_selector.py"
M("C08", "refinement-graph-only", RLF, "    new_branch._node_.weight = RDREdge.Refinement\n    _replace_in_parent(prev_parent, current_node, new_conditions_root)\n", "    new_branch._node_.weight = RDREdge.Refinement\n    new_conditions_root._parent_ = prev_parent\n", "refinement#slot-updated")
M("C08", "always-right-slot", RLF, "        if parent.left is old:\n            parent.left = new\n        else:\n            parent.right = new\n", "        parent.right = new\n", "slot-updated")
M("C08", "climb-one-level", RLF, "    while isinstance(current_node._parent_, (Alternative, Next)) or (\n        isinstance(current_node._parent_, ExceptIf)\n        and current_node is current_node._parent_.left\n    ):\n        current_node = current_node._parent_\n",
  "    if isinstance(current_node._parent_, (Alternative, Next)) or (\n        isinstance(current_node._parent_, ExceptIf)\n        and current_node is current_node._parent_.left\n    ):\n        current_node = current_node._parent_\n", "alternative#")
M("C08", "no-climb", RLF, "    while isinstance(current_node._parent_, (Alternative, Next)) or (\n        isinstance(current_node._parent_, ExceptIf)\n        and current_node is current_node._parent_.left\n    ):\n        current_node = current_node._parent_\n", "", "alternative#")
M("C08", "alternative-as-next", RLF, "        new_conditions_root = Alternative(current_node, new_branch)\n", "        new_conditions_root = Next(current_node, new_branch)\n", "alternative#wraps-node-and-branch")
M("C08", "branch-on-left", RLF, "        new_conditions_root = Alternative(current_node, new_branch)\n", "        new_conditions_root = Alternative(new_branch, current_node)\n", "alternative#wraps-node-and-branch")
M("C08", "returns-selector", RLF, "    _replace_in_parent(prev_parent, current_node, new_conditions_root)\n    return new_conditions_root.right\n\n\ndef alternative(", "    _replace_in_parent(prev_parent, current_node, new_conditions_root)\n    return new_conditions_root\n\n\ndef alternative(", "refinement#returns-new-branch")
M("C08", "graph-edge-missing", RLF, "    new._parent_ = parent\n    if isinstance(parent, BinaryOperator):", "    if isinstance(parent, BinaryOperator):", "graph-agrees")
M("C08", "exceptif-left-always", CSF, "            if not right_yielded:\n                yield from self.yield_and_update_conclusion(\n                    left_value, self.left._conclusion_\n                )", "            yield from self.yield_and_update_conclusion(\n                left_value, self.left._conclusion_\n            )", "left-only-without-exception")
M("C08", "exceptif-false-right-counts", CSF, "                if right_value.is_false:\n                    continue\n", "", "false-right-skipped")
M("C08", "exceptif-right-from-sources", CSF, "self.right._evaluate__(left_value.bindings, parent=self)", "self.right._evaluate__(sources, parent=self)", "right-under-left-binding")
M("C08", "alternative-right-first", CSF, "            if not self.left._is_false_:\n                self.update_conclusion(output, self.left._conclusion_)\n            elif not self.right._is_false_:\n                self.update_conclusion(output, self.right._conclusion_)", "            if not self.right._is_false_:\n                self.update_conclusion(output, self.right._conclusion_)\n            elif not self.left._is_false_:\n                self.update_conclusion(output, self.left._conclusion_)", "first-true-branch")
M("C08", "no-clear-next", CSF, "            yield OperationResult(output.bindings, self._is_false_, self)\n            self._conclusion_.clear()\n", "            yield OperationResult(output.bindings, self._is_false_, self)\n", "clear-after-emission")
M("C08", "next-else-branch", CSF, "            if self.right_evaluated:\n                self.update_conclusion(output, self.right._conclusion_)", "            elif self.right_evaluated:\n                self.update_conclusion(output, self.right._conclusion_)", "both-branches")
R("C08", "inline-helper", RLF, "    _replace_in_parent(prev_parent, current_node, new_conditions_root)\n    return new_conditions_root.right\n\n\ndef alternative(", "    new_conditions_root._parent_ = prev_parent\n    if isinstance(prev_parent, BinaryOperator):\n        if prev_parent.left is current_node:\n            prev_parent.left = new_conditions_root\n        else:\n            prev_parent.right = new_conditions_root\n    return new_conditions_root.right\n\n\ndef alternative(")

# ------------------------------------------------------------------------------------- C01
M("C01", "and-right-from-sources", SYM, "    def evaluate_right(self, left_value: OperationResult) -> Iterable[OperationResult]:\n        right_values = self.right._evaluate__(left_value.bindings, parent=self)", "    def evaluate_right(self, left_value: OperationResult) -> Iterable[OperationResult]:\n        right_values = self.right._evaluate__({}, parent=self)", "EP-THREAD")
M("C01", "comparator-second-from-sources", SYM, "                second_operand._evaluate__(first_val.bindings, parent=self),", "                second_operand._evaluate__(sources, parent=self),", "EP-THREAD")
M("C01", "selected-vars-from-sources", SYM, "        for var_val in var._evaluate__(bindings, parent=self):\n            yield from self._evaluate_selected_variables_from_(\n                index + 1,\n                {**var_val.bindings, var._id_: var_val[var._id_]},", "        for var_val in var._evaluate__(bindings, parent=self):\n            yield from self._evaluate_selected_variables_from_(\n                index + 1,\n                {**bindings, var._id_: var_val[var._id_]},", "EP-THREAD")
M("C01", "predicate-args-from-sources", SYM, "            yield from self._generate_child_vars_values_from_(\n                remaining, var_val.bindings, {**values, name: var_val}\n            )", "            yield from self._generate_child_vars_values_from_(\n                remaining, bindings, {**values, name: var_val}\n            )", "EP-THREAD")
M("C01", "union-generic-negation", SYM, "    def _invert_(self):\n        # The second pass reports the falsity of the right operand alone, which does not falsify the disjunction,\n        # so the generic negation (flip every result) is unsound here: negate by De Morgan instead.\n        return AND(self.left._invert_(), self.right._invert_())\n", "", "EP-NEG")
M("C01", "union-de-morgan-wrong", SYM, "        return AND(self.left._invert_(), self.right._invert_())\n", "        return AND(self.left._invert_(), self.right)\n", "EP-NEG")
M("C01", "forall-invert-not-dual", SYM, "        return Exists(self.variable, self.condition._invert_())", "        return Exists(self.variable, self.condition)", "EP-NEG")
M("C01", "elseif-right-alone", SYM, "            if left_is_false:\n                yield from self.evaluate_right(left_value.bindings)", "            if left_is_false:\n                yield from self.evaluate_right(sources)", "EP-")
M("C01", "no-truth-filter", SYM, "            yield from filter(\n                lambda v: v.is_true, self._child_._evaluate__(sources, parent=self)\n            )", "            yield from self._child_._evaluate__(sources, parent=self)", "EP-FILTER")
M("C01", "filter-on-false", SYM, "            yield from filter(\n                lambda v: v.is_true, self._child_._evaluate__(sources, parent=self)\n            )", "            yield from filter(\n                lambda v: v.is_false, self._child_._evaluate__(sources, parent=self)\n            )", "EP-FILTER")
M("C01", "exceptif-right-from-sources", CSF, "self.right._evaluate__(left_value.bindings, parent=self)", "self.right._evaluate__(sources, parent=self)", "EP-THREAD")
M("C01", "and-false-left-drops-bindings", SYM, "            if self._is_false_:\n                yield OperationResult(left_value.bindings, self._is_false_, self)", "            if self._is_false_:\n                yield OperationResult(sources, self._is_false_, self)", "EP-NEG")
R("C01", "and-inline-right", SYM, "                yield from self.evaluate_right(left_value)\n", "                for right_value in self.right._evaluate__(left_value.bindings, parent=self):\n                    self._is_false_ = right_value.is_false\n                    yield OperationResult(right_value.bindings, self._is_false_, self)\n")
R("C01", "rename-left-value", SYM, "        for left_value in left_values:\n            self._is_false_ = left_value.is_false\n            if self._is_false_:\n                yield OperationResult(left_value.bindings, self._is_false_, self)\n            else:\n                yield from self.evaluate_right(left_value)", "        for lv in left_values:\n            self._is_false_ = lv.is_false\n            if self._is_false_:\n                yield OperationResult(lv.bindings, self._is_false_, self)\n            else:\n                yield from self.evaluate_right(lv)")
R("C01", "filter-as-genexp", SYM, "            yield from filter(\n                lambda v: v.is_true, self._child_._evaluate__(sources, parent=self)\n            )", "            for v in self._child_._evaluate__(sources, parent=self):\n                if v.is_true:\n                    yield v")

# ------------------------------------------------------------------------------------- C02
M("C02", "variable-no-bound-check", SYM, "        if self._id_ in sources:\n            if (\n                isinstance(self._parent_, LogicalBinaryOperator)\n                or self is self._conditions_root_\n            ):\n                self._is_false_ = not bool(sources[self._id_])\n            yield OperationResult(sources, not bool(sources[self._id_]), self)\n        elif self._domain_:", "        if self._domain_:", "EP-BOUND")
M("C02", "domainmapping-no-bound-check", SYM, "        if self._id_ in sources:\n            yield OperationResult(sources, self._is_false_, self)\n            return\n\n        yield from (\n            self._build_operation_result_and_update_truth_value_(", "        yield from (\n            self._build_operation_result_and_update_truth_value_(", "EP-BOUND")
M("C02", "comparator-bound-falls-through", SYM, "        if self._id_ in sources:\n            yield OperationResult(sources, self._is_false_, self)\n            return\n\n        first_operand, second_operand", "        if self._id_ in sources:\n            yield OperationResult(sources, self._is_false_, self)\n\n        first_operand, second_operand", "EP-BOUND")
M("C02", "quantifier-bound-yields-twice", SYM, "        if self._id_ in sources:\n            yield OperationResult(sources, False, self)\n            return\n        result_count = 0", "        if self._id_ in sources:\n            yield OperationResult(sources, False, self)\n            yield OperationResult(sources, False, self)\n            return\n        result_count = 0", "bound-passes-through-once")
M("C02", "and-right-always", SYM, "            if self._is_false_:\n                yield OperationResult(left_value.bindings, self._is_false_, self)\n            else:\n                yield from self.evaluate_right(left_value)", "            if self._is_false_:\n                yield OperationResult(left_value.bindings, self._is_false_, self)\n            yield from self.evaluate_right(left_value)", "AND#right-gated")
M("C02", "and-false-left-twice", SYM, "            if self._is_false_:\n                yield OperationResult(left_value.bindings, self._is_false_, self)\n            else:", "            if self._is_false_:\n                yield OperationResult(left_value.bindings, self._is_false_, self)\n                yield OperationResult(left_value.bindings, self._is_false_, self)\n            else:", "decided-left-emitted-once")
M("C02", "elseif-right-after-true-left", SYM, "            else:\n                self._is_false_ = False\n                yield OperationResult(left_value.bindings, self._is_false_, self)\n\n    def evaluate_right(", "            else:\n                self._is_false_ = False\n                yield OperationResult(left_value.bindings, self._is_false_, self)\n                yield from self.evaluate_right(left_value.bindings)\n\n    def evaluate_right(", "right-gated")
M("C02", "elseif-second-pass", SYM, "        sources = sources or {}\n        self._eval_parent_ = parent\n        yield from self.evaluate_left(sources)\n\n\n@dataclass(eq=False, repr=False)\nclass QuantifiedConditional", "        sources = sources or {}\n        self._eval_parent_ = parent\n        yield from self.evaluate_left(sources)\n        yield from self.evaluate_right(sources)\n\n\n@dataclass(eq=False, repr=False)\nclass QuantifiedConditional", "ElseIf#no-other-right-evaluation")
M("C02", "or-gate-inverted", SYM, "            if left_is_false:\n                yield from self.evaluate_right(left_value.bindings)\n            else:", "            if not left_is_false:\n                yield from self.evaluate_right(left_value.bindings)\n            else:", "right-gated")
M("C02", "and-left-twice", SYM, "        left_values = self.left._evaluate__(sources, parent=self)\n        for left_value in left_values:\n            self._is_false_ = left_value.is_false\n            if self._is_false_:", "        left_values = itertools.chain(self.left._evaluate__(sources, parent=self), self.left._evaluate__(sources, parent=self))\n        for left_value in left_values:\n            self._is_false_ = left_value.is_false\n            if self._is_false_:", "AND#left-once")
R("C02", "bound-check-early-return-form", SYM, "        if self._id_ in sources:\n            yield OperationResult(sources, False, self)\n            return\n        result_count = 0", "        if self._id_ in sources:\n            yield OperationResult(sources, False, self)\n            return\n        else:\n            pass\n        result_count = 0")

# ------------------------------------------------------------------------------------- C03
M("C03", "no-reset-of-concluded", CSF, "        for seen_set in self.concluded_before.values():\n            seen_set.clear()\n", "        pass\n", "CARRY-1@ConclusionSelector.concluded_before")
M("C03", "reset-never-called", SYM, "        for node in self._all_nodes_:\n            node._reset_evaluation_state_()\n", "", "CARRY-1@ConclusionSelector.concluded_before")
M("C03", "conclusion-not-cleared", CSF, "        yield OperationResult(result.bindings, self._is_false_, self)\n        self._conclusion_.clear()\n", "        yield OperationResult(result.bindings, self._is_false_, self)\n", "") if False else None
M("C03", "memoised-results-on-node", SYM, "        sources = sources or {}\n        self._eval_parent_ = parent\n        for v in self._child_._evaluate__(sources, parent=self):\n            self._is_false_ = v.is_true\n            yield OperationResult(v.bindings, self._is_false_, self)", "        sources = sources or {}\n        self._eval_parent_ = parent\n        for v in self._child_._evaluate__(sources, parent=self):\n            self._is_false_ = v.is_true\n            self._conclusion_.add(v)\n            yield OperationResult(v.bindings, self._is_false_, self)", "CARRY-1")
M("C03", "sticky-flag", SYM, "            self._is_false_ = left_value.is_false\n            if self._is_false_:\n                yield OperationResult(left_value.bindings, self._is_false_, self)", "            self._is_false_ = self._is_false_ or left_value.is_false\n            if self._is_false_:\n                yield OperationResult(left_value.bindings, self._is_false_, self)", "CARRY-1@SymbolicExpression._is_false_")
M("C03", "new-seen-list", SYM, "        variable_ids = [v._id_ for v in self.variable._all_variable_instances_]\n        seen_variable_bindings = set()\n", "        variable_ids = [v._id_ for v in self.variable._all_variable_instances_]\n        seen_variable_bindings = self._seen_parent_values_by_parent_.setdefault(0, set())\n", "CARRY-1")
M("C03", "handshake-dropped-and", SYM, "        sources = sources or {}\n        self._eval_parent_ = parent\n        left_values = self.left._evaluate__(sources, parent=self)", "        sources = sources or {}\n        left_values = self.left._evaluate__(sources, parent=self)", "AND._evaluate__")
M("C03", "handshake-after-children", SYM, "        sources = sources or {}\n        self._eval_parent_ = parent\n        for v in self._child_._evaluate__(sources, parent=self):\n            self._is_false_ = v.is_true", "        sources = sources or {}\n        for v in self._child_._evaluate__(sources, parent=self):\n            self._eval_parent_ = parent\n            self._is_false_ = v.is_true", "Not._evaluate__#parent-installed-first")
M("C03", "child-gets-wrong-parent", SYM, "        right_values = self.right._evaluate__(left_value.bindings, parent=self)\n        for right_value in right_values:\n            self._is_false_ = right_value.is_false\n            yield OperationResult(right_value.bindings, self._is_false_, self)\n\n\n@dataclass(eq=False, repr=False)\nclass OR", "        right_values = self.right._evaluate__(left_value.bindings, parent=self._parent_)\n        for right_value in right_values:\n            self._is_false_ = right_value.is_false\n            yield OperationResult(right_value.bindings, self._is_false_, self)\n\n\n@dataclass(eq=False, repr=False)\nclass OR", "child-parent")
M("C03", "the-forgets-parent", SYM, "            yield from super()._evaluate__(sources, parent=parent)\n        except LessThanExpectedNumberOfSolutions:", "            yield from super()._evaluate__(sources)\n        except LessThanExpectedNumberOfSolutions:", "The._evaluate__")
M("C03", "domain-generator-in-variable", SYM, "        elif self._domain_:\n            for v in self._domain_:", "        elif self._domain_:\n            self._pending_ = iter(self._domain_)\n            for v in self._pending_:", "CARRY-2")
R("C03", "local-scratch", SYM, "        sources = sources or {}\n        self._eval_parent_ = parent\n        left_values = self.left._evaluate__(sources, parent=self)", "        sources = sources or {}\n        self._eval_parent_ = parent\n        seen_here = set()\n        seen_here.add(1)\n        left_values = self.left._evaluate__(sources, parent=self)")
CASES[:] = [c for c in CASES if c]

# ------------------------------------------------------------------------------------- C10
M("C10", "let-materialises-domain", ENT, "    if is_iterable(domain):\n        domain = filter(lambda x: isinstance(x, type_), domain)", "    if is_iterable(domain):\n        domain = [x for x in domain if isinstance(x, type_)]", "LAZY-BUILD")
M("C10", "let-sorts-domain", ENT, "    if is_iterable(domain):\n        domain = filter(lambda x: isinstance(x, type_), domain)", "    if is_iterable(domain):\n        domain = filter(lambda x: isinstance(x, type_), sorted(domain, key=id))", "LAZY-BUILD")
M("C10", "let-len-domain", ENT, "    domain_source = _get_domain_source_from_domain_and_type_values(domain, type_)\n", "    domain_source = _get_domain_source_from_domain_and_type_values(domain, type_)\n    if domain is not None and len(domain) == 0:\n        name = \"empty\"\n", "LAZY-BUILD")
M("C10", "literal-materialises", SYM, "            if type(original_data) in (list, tuple):\n                first_value = original_data[0] if len(original_data) > 0 else None\n            elif is_iterable(original_data):\n                first_value = None", "            if is_iterable(original_data):\n                original_data = list(original_data)\n                first_value = original_data[0] if len(original_data) > 0 else None", "LAZY-BUILD@Literal.__init__")
M("C10", "literal-truth", SYM, "            type_ = type(first_value) if first_value is not None else None", "            type_ = type(first_value) if first_value else None", "LAZY-BUILD@Literal.__init__")
M("C10", "update-domain-truth", SYM, "        if domain is not None:\n            if isinstance(domain, HashedIterable):", "        if domain:\n            if isinstance(domain, HashedIterable):", "LAZY-BUILD@Variable._update_domain_")
M("C10", "comparator-compares-at-build", SYM, "    def __eq__(self, other) -> Comparator:\n        return Comparator(self, other, operator.eq)", "    def __eq__(self, other) -> Comparator:\n        if other == 0:\n            other = 0\n        return Comparator(self, other, operator.eq)", "LAZY-BUILD")
M("C10", "index-key-hashed", SYM, "    def __getitem__(self, key) -> CanBehaveLikeAVariable[T]:\n        return Index(self, key)", "    def __getitem__(self, key) -> CanBehaveLikeAVariable[T]:\n        hash(key)\n        return Index(self, key)", "LAZY-BUILD")
M("C10", "predicate-touches-arg", PRF, "        if _any_of_the_kwargs_is_a_variable(all_kwargs):\n            return Variable(\n                _name__=function.__name__,", "        if _any_of_the_kwargs_is_a_variable(all_kwargs) or any(v.name for v in args):\n            return Variable(\n                _name__=function.__name__,", "LAZY-BUILD")
M("C10", "domainmapping-list", SYM, "        yield from (\n            self._build_operation_result_and_update_truth_value_(\n                child_result, mapped_value\n            )\n            for child_result in self._child_._evaluate__(sources, parent=self)\n            for mapped_value in self._apply_mapping_(child_result[self._child_._id_])\n        )", "        yield from [\n            self._build_operation_result_and_update_truth_value_(\n                child_result, mapped_value\n            )\n            for child_result in self._child_._evaluate__(sources, parent=self)\n            for mapped_value in self._apply_mapping_(child_result[self._child_._id_])\n        ]", "LAZY-EVAL")
M("C10", "comparator-list", SYM, "        yield from (\n            OperationResult(\n                second_val.bindings, not self.apply_operation(second_val), self\n            )", "        yield from list(\n            OperationResult(\n                second_val.bindings, not self.apply_operation(second_val), self\n            )", "LAZY-EVAL") if False else None
M("C10", "and-sorted-left", SYM, "        left_values = self.left._evaluate__(sources, parent=self)\n        for left_value in left_values:\n            self._is_false_ = left_value.is_false\n            if self._is_false_:", "        left_values = sorted(self.left._evaluate__(sources, parent=self), key=id)\n        for left_value in left_values:\n            self._is_false_ = left_value.is_false\n            if self._is_false_:", "LAZY-EVAL")
M("C10", "variable-domain-list", SYM, "        elif self._domain_:\n            for v in self._domain_:", "        elif self._domain_:\n            for v in list(self._domain_):", "LAZY-EVAL")
M("C10", "quantifier-len", SYM, "        values = self._child_._evaluate__(sources, parent=self)\n        for value in values:", "        values = list(self._child_._evaluate__(sources, parent=self))\n        for value in values:", "LAZY-EVAL")
M("C10", "evaluate-not-generator", SYM, "        yield from map(self._process_result_, self._evaluate__())", "        return list(map(self._process_result_, self._evaluate__()))", "LAZY-EVAL")
M("C10", "selected-vars-product", SYM, "        yield from self._evaluate_selected_variables_from_(0, copy(sources), False)", "        streams = {var: var._evaluate__(copy(sources), parent=self) for var in self.selected_variables}\n        for sol in generate_combinations(streams):\n            yield OperationResult({**sources, **{v._id_: sol[v][v._id_] for v in self.selected_variables}}, False, self)", "LAZY-EVAL")
R("C10", "filter-as-genexp-build", ENT, "        domain = filter(lambda x: isinstance(x, type_), domain)", "        domain = (x for x in domain if isinstance(x, type_))")
R("C10", "for-loop-instead-of-genexp", SYM, "        elif self._domain_:\n            for v in self._domain_:", "        elif self._domain_:\n            for v in iter(self._domain_):")
CASES[:] = [c for c in CASES if c]
