"""Tiny evaluator of pure boolean / selection expressions over *model objects*.

Used where a rule has to know what a small predicate of the code base computes for the few kinds of
objects that matter (a plain variable, a literal, a call ...). The expression is interpreted from its
syntax tree over Python objects built by the rule; only a whitelist of builtins is available, anything
else raises AnalysisError (the rule then reports that it cannot decide, exit 2).
"""
from __future__ import annotations

import ast
from typing import Any, Dict, List

from .model import AnalysisError

_BUILTINS = {"isinstance": isinstance, "issubclass": issubclass, "type": type, "len": len, "bool": bool, "hasattr": hasattr, "getattr": getattr,
             "any": any, "all": all, "tuple": tuple, "list": list, "set": set, "id": id}


def evaluate(e: ast.expr, env: Dict[str, Any], what: str = "expression") -> Any:
    def ev(x, env):
        if isinstance(x, ast.Constant):
            return x.value
        if isinstance(x, ast.Name):
            if x.id in env:
                return env[x.id]
            if x.id in _BUILTINS:
                return _BUILTINS[x.id]
            raise AnalysisError(f"modeleval: free name {x.id} in {what}")
        if isinstance(x, ast.Attribute):
            b = ev(x.value, env)
            try:
                return getattr(b, x.attr)
            except AttributeError:
                raise AnalysisError(f"modeleval: model object {b!r} has no attribute {x.attr} ({what})")
        if isinstance(x, ast.Call):
            f = ev(x.func, env)
            if f not in _BUILTINS.values() and not getattr(f, "__modeleval_ok__", False):
                raise AnalysisError(f"modeleval: call of {ast.unparse(x.func)} is outside the model ({what})")
            args = []
            for a in x.args:
                if isinstance(a, ast.GeneratorExp):
                    args.append(comp(a, env))
                else:
                    args.append(ev(a, env))
            return f(*args, **{k.arg: ev(k.value, env) for k in x.keywords})
        if isinstance(x, ast.UnaryOp) and isinstance(x.op, ast.Not):
            return not ev(x.operand, env)
        if isinstance(x, ast.BoolOp):
            if isinstance(x.op, ast.And):
                v = True
                for y in x.values:
                    v = ev(y, env)
                    if not v:
                        return v
                return v
            v = False
            for y in x.values:
                v = ev(y, env)
                if v:
                    return v
            return v
        if isinstance(x, ast.Compare):
            left = ev(x.left, env)
            for op, c in zip(x.ops, x.comparators):
                right = ev(c, env)
                fn = {ast.Is: lambda a, b: a is b, ast.IsNot: lambda a, b: a is not b, ast.Eq: lambda a, b: a == b, ast.NotEq: lambda a, b: a != b,
                      ast.In: lambda a, b: a in b, ast.NotIn: lambda a, b: a not in b, ast.Lt: lambda a, b: a < b, ast.Gt: lambda a, b: a > b,
                      ast.LtE: lambda a, b: a <= b, ast.GtE: lambda a, b: a >= b}.get(type(op))
                if fn is None or not fn(left, right):
                    return False
                left = right
            return True
        if isinstance(x, ast.IfExp):
            return ev(x.body, env) if ev(x.test, env) else ev(x.orelse, env)
        if isinstance(x, (ast.Tuple, ast.List)):
            return tuple(ev(y, env) for y in x.elts)
        if isinstance(x, ast.Subscript):
            return ev(x.value, env)[ev(x.slice, env)]
        if isinstance(x, (ast.GeneratorExp, ast.ListComp)):
            return comp(x, env)
        raise AnalysisError(f"modeleval: {type(x).__name__} is outside the model ({what})")

    def comp(x, env):
        out: List[Any] = []

        def rec(i, env2):
            if i == len(x.generators):
                out.append(ev(x.elt, env2))
                return
            g = x.generators[i]
            for item in ev(g.iter, env2):
                env3 = dict(env2)
                if isinstance(g.target, ast.Name):
                    env3[g.target.id] = item
                else:
                    raise AnalysisError("modeleval: tuple target")
                if all(ev(c, env3) for c in g.ifs):
                    rec(i + 1, env3)

        rec(0, dict(env))
        return out

    return ev(e, env)


def predicate_body(fn_node) -> ast.expr:
    """the single returned expression of a lambda / a one-statement local function"""
    if isinstance(fn_node, ast.Lambda):
        return fn_node.body
    stmts = [st for st in fn_node.body if not (isinstance(st, ast.Expr) and isinstance(st.value, ast.Constant))]
    if len(stmts) == 1 and isinstance(stmts[0], ast.Return) and stmts[0].value is not None:
        return stmts[0].value
    raise AnalysisError(f"modeleval: {getattr(fn_node, 'name', 'lambda')} is not a single returned expression")
