"""Small AST helpers shared by the rules."""
from __future__ import annotations

import ast
from typing import Iterable, List, Optional

from .model import FuncInfo, dotted, walk_local


def src(n: Optional[ast.AST]) -> str:
    if n is None:
        return ""
    try:
        return ast.unparse(n)
    except Exception:
        return f"<{type(n).__name__}>"


def site(f: FuncInfo, n: Optional[ast.AST] = None) -> str:
    ln = getattr(n, "lineno", None) or f.node.lineno
    return f"{f.module.relpath}:{ln}"


def calls_in(root: ast.AST, local: bool = True) -> List[ast.Call]:
    it = walk_local(root) if local else ast.walk(root)
    out = [n for n in it if isinstance(n, ast.Call)]
    if local and isinstance(root, ast.Call):
        out.insert(0, root)
    return out


def call_name(c: ast.Call) -> str:
    """Last component of the callee ('append' for x.append(...), 'list' for list(...))."""
    f = c.func
    if isinstance(f, ast.Attribute):
        return f.attr
    if isinstance(f, ast.Name):
        return f.id
    return ""


def is_self_attr(n: ast.AST, attr: Optional[str] = None, selfname: str = "self") -> bool:
    return (
        isinstance(n, ast.Attribute)
        and isinstance(n.value, ast.Name)
        and n.value.id == selfname
        and (attr is None or n.attr == attr)
    )


def is_super_call(c: ast.AST, meth: Optional[str] = None) -> bool:
    return (
        isinstance(c, ast.Call)
        and isinstance(c.func, ast.Attribute)
        and isinstance(c.func.value, ast.Call)
        and isinstance(c.func.value.func, ast.Name)
        and c.func.value.func.id == "super"
        and (meth is None or c.func.attr == meth)
    )


def kwarg(c: ast.Call, name: str) -> Optional[ast.expr]:
    for k in c.keywords:
        if k.arg == name:
            return k.value
    return None


def arg_or_kw(c: ast.Call, pos: int, name: str) -> Optional[ast.expr]:
    if len(c.args) > pos and not any(isinstance(a, ast.Starred) for a in c.args[: pos + 1]):
        return c.args[pos]
    return kwarg(c, name)


def names_in(n: ast.AST) -> set:
    return {x.id for x in ast.walk(n) if isinstance(x, ast.Name)}


def stmts_in(fn: ast.AST) -> Iterable[ast.stmt]:
    for n in walk_local(fn):
        if isinstance(n, ast.stmt):
            yield n


def const_value(e: Optional[ast.expr], default=None):
    if isinstance(e, ast.Constant):
        return e.value
    return default


def enclosing_stmt(parents, n: ast.AST) -> ast.stmt:
    while n in parents and not isinstance(n, ast.stmt):
        n = parents[n]
    return n
