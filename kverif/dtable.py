"""M6 - decision-table extraction over finite abstract domains.

A pure decision function (if/elif/else, return, raise, boolean operators, comparisons, attribute
flags, isinstance) is evaluated *abstractly on its AST*: quantities are uninterpreted terms (access
paths such as ``n`` or ``self.at_least.value``); the only facts about them are *atoms*
  - ord(a, b) in {-1, 0, +1}   for order/equality comparisons of two terms
  - truth(t)  in {False, True} for a term used as a condition
  - isinstance(t, C) in {False, True}
The driver enumerates every consistent valuation of the atoms the function actually consults
(depth-first, branching when an undecided atom is needed) and records the outcome of each path:
``('raise', ExcName, args)``, ``('return', value)`` or ``('fallthrough',)``.  No execution of repo
code, no solver: orderings of integers form a finite domain, so the table is exact for all values.
"""
from __future__ import annotations

import ast
import itertools
from dataclasses import dataclass
from typing import Any, Callable, Dict, List, Optional, Tuple

from .model import AnalysisError, Program, FuncInfo, dotted


class NeedAtom(Exception):
    def __init__(self, atom):
        self.atom = atom


@dataclass(frozen=True)
class Sym:
    """Uninterpreted term."""

    path: str

    def __repr__(self):
        return self.path


@dataclass(frozen=True)
class App:
    """Uninterpreted application (result of a call the evaluator does not inline)."""

    fn: str
    args: Tuple[Any, ...]
    kwargs: Tuple[Tuple[str, Any], ...] = ()

    def __repr__(self):
        a = [repr(x) for x in self.args] + [f"{k}={v!r}" for k, v in self.kwargs]
        return f"{self.fn}({', '.join(a)})"


class _Return(Exception):
    def __init__(self, value):
        self.value = value


class _Raise(Exception):
    def __init__(self, exc, args):
        self.exc = exc
        self.args_ = args


def term(v) -> str:
    if isinstance(v, (Sym, App)):
        return repr(v)
    return repr(v)


class AbstractEval:
    """Evaluates one function under one (partial) valuation; raises NeedAtom for undecided atoms."""

    def __init__(
        self,
        prog: Program,
        valuation: Dict[Tuple, Any],
        self_cls: Optional[str] = None,
        inline: Optional[Callable[[str], bool]] = None,
        field_types: Optional[Dict[str, str]] = None,
        const_attrs: Optional[Dict[str, Any]] = None,
        max_depth: int = 6,
    ):
        self.prog = prog
        self.val = valuation
        self.self_cls = self_cls
        self.inline = inline or (lambda q: True)
        self.field_types = field_types or {}
        self.const_attrs = const_attrs or {}
        self.calls: List[App] = []
        self.generic_loops = False  # a for loop over a symbolic iterable is run once with a generic element (summaries of "what is done per element")
        self.globals: Dict[str, Any] = {}  # free names -> model values
        self.funcs: Dict[str, Callable] = {}  # modelled builtins (called with evaluated arguments)
        self.cur: List[FuncInfo] = []  # inlining stack (module context for name resolution)
        self.symbolic_cmp: Optional[Callable[[Any, Any], bool]] = None  # operands whose comparison builds a value
        self.depth = 0
        self.max_depth = max_depth
        self.type_of: Dict[str, str] = {}

    # -- atoms -------------------------------------------------------------------------
    def _atom(self, atom):
        if atom in self.val:
            return self.val[atom]
        raise NeedAtom(atom)

    def truth(self, v) -> bool:
        if isinstance(v, (Sym, App)):
            return self._atom(("truth", term(v)))
        return bool(v)

    def order(self, a, b) -> int:
        if not isinstance(a, (Sym, App)) and not isinstance(b, (Sym, App)):
            try:
                return (a > b) - (a < b)
            except TypeError:
                return 0 if a == b else 2
        ta, tb = term(a), term(b)
        if ta == tb:
            return 0
        if (("ord", ta, tb)) in self.val or ("ord", tb, ta) not in self.val:
            return self._atom(("ord", ta, tb))
        return -self._atom(("ord", tb, ta))

    # -- expressions -------------------------------------------------------------------
    def ev(self, e: ast.expr, env: Dict[str, Any]):
        if isinstance(e, ast.Constant):
            return e.value
        if isinstance(e, ast.Name):
            if e.id in env:
                return env[e.id]
            if e.id in self.globals:
                return self.globals[e.id]
            return Sym(e.id)
        if isinstance(e, ast.Attribute):
            base = self.ev(e.value, env)
            if isinstance(base, (Sym, App)):
                p = f"{term(base)}.{e.attr}"
                if p in self.const_attrs:
                    return self.const_attrs[p]
                # property / cached_property defined in the repo: inline it
                bt = self.type_of.get(term(base))
                if bt:
                    f = self.prog.lookup(bt, e.attr)
                    if f is not None and f.is_property and self.inline(f.qual):
                        return self.call_func(f, [base], {})
                    ca = self.prog.lookup_attr(bt, e.attr)
                    if ca is not None and ca.is_classvar and ca.value is not None:
                        return self.ev(ca.value, {})
                    ft = self.prog.field_type(bt, e.attr)
                    if ft and ft in self.prog.classes:
                        self.type_of[p] = ft
                if p in self.field_types:
                    self.type_of[p] = self.field_types[p]
                return Sym(p)
            if hasattr(base, "model_attr"):
                return base.model_attr(e.attr)
            return getattr(base, e.attr) if hasattr(base, e.attr) else Sym(f"{base!r}.{e.attr}")
        if isinstance(e, ast.BoolOp):
            if isinstance(e.op, ast.And):
                v = True
                for x in e.values:
                    v = self.ev(x, env)
                    if not self.truth(v):
                        return v
                return v
            v = False
            for x in e.values:
                v = self.ev(x, env)
                if self.truth(v):
                    return v
            return v
        if isinstance(e, ast.UnaryOp):
            v = self.ev(e.operand, env)
            if isinstance(e.op, ast.Not):
                return not self.truth(v)
            if isinstance(e.op, ast.USub) and not isinstance(v, (Sym, App)):
                return -v
            return App("neg", (v,))
        if isinstance(e, ast.Compare):
            left = self.ev(e.left, env)
            if len(e.ops) == 1 and self.symbolic_cmp is not None:
                right = self.ev(e.comparators[0], env)
                if self.symbolic_cmp(left, right) and isinstance(e.ops[0], (ast.Eq, ast.NotEq, ast.Lt, ast.LtE, ast.Gt, ast.GtE)):
                    return App(type(e.ops[0]).__name__, (left, right))
            for op, c in zip(e.ops, e.comparators):
                right = self.ev(c, env)
                if not self.cmp(op, left, right):
                    return False
                left = right
            return True
        if isinstance(e, ast.IfExp):
            return self.ev(e.body if self.truth(self.ev(e.test, env)) else e.orelse, env)
        if isinstance(e, ast.Call):
            return self.call(e, env)
        if isinstance(e, (ast.Tuple, ast.List)):
            return tuple(self.ev(x, env) for x in e.elts)
        if isinstance(e, ast.Dict):
            return App("dict", tuple((self.ev(k, env) if k is not None else "**", self.ev(v, env)) for k, v in zip(e.keys, e.values)))
        if isinstance(e, ast.Set):
            return App("set", tuple(self.ev(x, env) for x in e.elts))
        if isinstance(e, ast.JoinedStr):
            return App("fstring", tuple(self.ev(v.value, env) for v in e.values if isinstance(v, ast.FormattedValue)))
        if isinstance(e, ast.Lambda):
            return App("lambda", (ast.unparse(e),))
        if isinstance(e, ast.Subscript):
            base, idx = self.ev(e.value, env), self.ev(e.slice, env)
            if isinstance(base, (tuple, list, dict)) and not isinstance(idx, (Sym, App)):
                return base[idx]  # IndexError / KeyError propagate to an enclosing abstract `try`
            if isinstance(idx, int) and not isinstance(idx, bool) and idx >= 0:
                return App("item", (base, idx))  # the same term tuple unpacking produces
            return App("getitem", (base, idx))
        if isinstance(e, (ast.GeneratorExp, ast.ListComp)):
            return self.comprehension(e, env)
        if isinstance(e, ast.BinOp):
            return App(type(e.op).__name__, (self.ev(e.left, env), self.ev(e.right, env)))
        if isinstance(e, ast.Yield):
            v = self.ev(e.value, env) if e.value is not None else None
            self.calls.append(App("yield", (v,)))
            return None
        raise AnalysisError(f"dtable: no abstract semantics for expression {ast.unparse(e)!r}")

    def comprehension(self, e, env):
        out = []

        def rec(i, env2):
            if i == len(e.generators):
                out.append(self.ev(e.elt, env2))
                return
            g = e.generators[i]
            it = self.ev(g.iter, env2)
            if isinstance(it, (Sym, App)):
                raise AnalysisError(f"dtable: comprehension over symbolic iterable {it!r}")
            for x in it:
                env3 = dict(env2)
                self.assign(g.target, x, env3)
                if all(self.truth(self.ev(c, env3)) for c in g.ifs):
                    rec(i + 1, env3)

        rec(0, dict(env))
        return tuple(out)

    def cmp(self, op, a, b) -> bool:
        if isinstance(op, (ast.Is, ast.IsNot)):
            if term(a) == term(b):
                same = True
            elif isinstance(a, (Sym, App)) or isinstance(b, (Sym, App)):
                ta, tb = sorted([term(a), term(b)])
                same = self._atom(("is", ta, tb))
            else:
                same = a is b
            return same if isinstance(op, ast.Is) else not same
        if isinstance(op, (ast.In, ast.NotIn)):
            if isinstance(b, tuple) and not isinstance(a, (Sym, App)) and not any(isinstance(x, (Sym, App)) for x in b):
                r = a in b
            elif isinstance(b, tuple):
                r = any(self.order(a, x) == 0 for x in b)
            else:
                r = self._atom(("in", term(a), term(b)))
            return r if isinstance(op, ast.In) else not r
        o = self.order(a, b)
        if o == 2:
            if isinstance(op, ast.Eq):
                return False
            if isinstance(op, ast.NotEq):
                return True
            raise AnalysisError("dtable: unordered comparison")
        return {
            ast.Lt: o < 0,
            ast.LtE: o <= 0,
            ast.Gt: o > 0,
            ast.GtE: o >= 0,
            ast.Eq: o == 0,
            ast.NotEq: o != 0,
        }[type(op)]

    # -- calls -------------------------------------------------------------------------
    def call(self, e: ast.Call, env):
        f = e.func
        args = []
        for a in e.args:
            if isinstance(a, ast.Starred):
                args.append(App("star", (self.ev(a.value, env),)))
            else:
                args.append(self.ev(a, env))
        kwargs = {k.arg or "**": self.ev(k.value, env) for k in e.keywords}
        fname = dotted(f) or ast.unparse(f)
        if isinstance(f, ast.Name) and f.id in self.funcs:
            return self.funcs[f.id](*args, **kwargs)
        if isinstance(f, ast.Name) and self.cur:
            q = self.cur[-1].module.resolve(f)
            target = self.prog.functions.get(q)
            if target is not None and target.cls is None and self.inline(target.qual) and self.depth < self.max_depth:
                return self.call_func(target, args, kwargs)
        if isinstance(f, ast.Name) and f.id == "isinstance":
            obj, cls = args
            return self._atom(("isinstance", term(obj), term(cls)))
        if isinstance(f, ast.Name) and f.id == "issubclass":
            return self._atom(("issubclass", term(args[0]), term(args[1])))
        if isinstance(f, ast.Name) and f.id in ("bool",):
            return self.truth(args[0])
        if isinstance(f, ast.Name) and f.id == "len":
            return App("len", tuple(args))
        # method call on a typed symbolic receiver -> inline
        if isinstance(f, ast.Attribute):
            recv = self.ev(f.value, env)
            if hasattr(recv, "model_attr") and not isinstance(recv, (Sym, App)):
                m = recv.model_attr(f.attr)
                if callable(m):
                    return m(*args, **kwargs)  # a modelled library function (inspect.isclass, ...)
            rt = self.type_of.get(term(recv)) if isinstance(recv, (Sym, App)) else None
            if rt:
                target = self.prog.lookup(rt, f.attr)
                if target is not None and self.inline(target.qual) and self.depth < self.max_depth:
                    return self.call_func(target, [recv] + args, kwargs)
            app = App(f"{term(recv)}.{f.attr}", tuple(args), tuple(sorted(kwargs.items(), key=lambda kv: kv[0])))
            self.calls.append(app)
            return app
        app = App(fname, tuple(args), tuple(sorted(kwargs.items(), key=lambda kv: kv[0])))
        self.calls.append(app)
        return app

    def call_func(self, f: FuncInfo, args: List[Any], kwargs: Dict[str, Any]):
        self.depth += 1
        self.cur.append(f)
        try:
            env = {}
            params = f.params
            for p, a in zip(params, args):
                env[p] = a
            for k, v in kwargs.items():
                env[k] = v
            a = f.node.args
            defaults = a.defaults
            for p, d in zip(params[len(params) - len(defaults):], defaults):
                if p not in env:
                    env[p] = self.ev(d, {})
            for p in params:
                env.setdefault(p, Sym(p))
            try:
                self.block(f.node.body, env)
            except _Return as r:
                return r.value
            return None
        finally:
            self.cur.pop()
            self.depth -= 1

    # -- statements --------------------------------------------------------------------
    def block(self, stmts, env):
        for s in stmts:
            self.stmt(s, env)

    def stmt(self, s, env):
        if isinstance(s, ast.Expr):
            if isinstance(s.value, ast.Constant):
                return
            self.ev(s.value, env)
        elif isinstance(s, ast.If):
            if self.truth(self.ev(s.test, env)):
                self.block(s.body, env)
            else:
                self.block(s.orelse, env)
        elif isinstance(s, ast.Return):
            raise _Return(self.ev(s.value, env) if s.value is not None else None)
        elif isinstance(s, ast.Raise):
            exc = s.exc
            if exc is None:
                raise _Raise("reraise", ())
            if isinstance(exc, ast.Call):
                name = dotted(exc.func) or ast.unparse(exc.func)
                args = tuple(self.ev(a, env) for a in exc.args)
            else:
                name = dotted(exc) or ast.unparse(exc)
                args = ()
            raise _Raise(name, args)
        elif isinstance(s, ast.Assign):
            v = self.ev(s.value, env)
            for t in s.targets:
                self.assign(t, v, env)
        elif isinstance(s, ast.AnnAssign):
            if s.value is not None:
                self.assign(s.target, self.ev(s.value, env), env)
        elif isinstance(s, ast.AugAssign) and isinstance(s.target, ast.Name):
            # x op= e  is  x = x op e  for the values the tables are built over (numbers, strings, tuples)
            load = ast.copy_location(ast.Name(id=s.target.id, ctx=ast.Load()), s.target)
            binop = ast.copy_location(ast.BinOp(left=load, op=s.op, right=s.value), s)
            self.assign(s.target, self.ev(binop, env), env)
        elif isinstance(s, ast.Pass):
            return
        elif isinstance(s, ast.Continue):
            raise _Return(("continue",))
        elif isinstance(s, ast.Break):
            raise _Return(("break",))
        elif isinstance(s, ast.Try):
            try:
                self.block(s.body, env)
            except (_Return,):
                raise
            except BaseException as x:  # abstract raise or a modelled builtin's exception
                if isinstance(x, (NeedAtom, AnalysisError)):
                    raise
                name = x.exc.split(".")[-1] if isinstance(x, _Raise) else type(x).__name__
                name = {"TypeErr": "TypeError"}.get(name, name)
                for h in s.handlers:
                    types = h.type.elts if isinstance(h.type, ast.Tuple) else ([h.type] if h.type is not None else [])
                    names = [(dotted(t) or "").split(".")[-1] for t in types]
                    if not names or name in names or "Exception" in names or "BaseException" in names:
                        if h.name:
                            env[h.name] = Sym(h.name)
                        self.block(h.body, env)
                        break
                else:
                    raise
            else:
                self.block(s.orelse, env)
            self.block(s.finalbody, env)
        elif isinstance(s, (ast.FunctionDef, ast.AsyncFunctionDef)):
            env[s.name] = App("lambda", (s.name,))  # a local helper is an opaque callable, like a lambda
        elif isinstance(s, ast.For) and self.generic_loops:
            it = self.ev(s.iter, env)
            items = list(it) if isinstance(it, (tuple, list)) else [App("elem", (it,))]
            self.calls.append(App("for-begin", (it,)))
            broke = False
            for x in items:
                self.assign(s.target, x, env)
                try:
                    self.block(s.body, env)
                except _Return as r:
                    if r.value == ("continue",):
                        continue
                    if r.value == ("break",):
                        broke = True
                        break
                    raise
            self.calls.append(App("for-end", (it,)))
            if not broke:
                self.block(s.orelse, env)
        else:
            raise AnalysisError(f"dtable: no abstract semantics for statement {type(s).__name__} at line {s.lineno}")

    def assign(self, t, v, env):
        if isinstance(t, ast.Name):
            env[t.id] = v
        elif isinstance(t, (ast.Tuple, ast.List)) and isinstance(v, tuple) and len(v) == len(t.elts):
            for tt, vv in zip(t.elts, v):
                self.assign(tt, vv, env)
        elif isinstance(t, (ast.Tuple, ast.List)) and isinstance(v, (Sym, App)):
            for i, tt in enumerate(t.elts):
                self.assign(tt, App("item", (v, i)), env)
        elif isinstance(t, ast.Attribute):
            self.calls.append(App("setattr", (self.ev(t.value, env), t.attr, v)))
        elif isinstance(t, ast.Subscript):
            self.calls.append(App("setitem", (self.ev(t.value, env), self.ev(t.slice, env), v)))
        else:
            raise AnalysisError(f"dtable: unsupported assignment target {ast.unparse(t)}")


def explore(
    prog: Program,
    fn: FuncInfo,
    args: List[Any],
    self_type: Optional[str] = None,
    choices: Optional[Callable[[Tuple], List[Any]]] = None,
    consistent: Optional[Callable[[Dict[Tuple, Any]], bool]] = None,
    field_types: Optional[Dict[str, str]] = None,
    const_attrs: Optional[Dict[str, Any]] = None,
    inline: Optional[Callable[[str], bool]] = None,
    preset: Optional[Dict[Tuple, Any]] = None,
    max_paths: int = 5000,
    globals_: Optional[Dict[str, Any]] = None,
    funcs: Optional[Dict[str, Callable]] = None,
    type_of: Optional[Dict[str, str]] = None,
    symbolic_cmp: Optional[Callable[[Any, Any], bool]] = None,
    generic_loops: bool = False,
) -> List[Tuple[Dict[Tuple, Any], Tuple, List[App]]]:
    """Enumerate every consistent path of `fn`; returns [(valuation, outcome, calls)]."""

    def default_choices(atom):
        return [-1, 0, 1] if atom[0] == "ord" else [False, True]

    choices = choices or default_choices
    out = []
    stack = [dict(preset or {})]
    while stack:
        val = stack.pop()
        if consistent is not None and not consistent(val):
            continue
        ae = AbstractEval(prog, val, inline=inline, field_types=field_types, const_attrs=const_attrs)
        ae.globals = dict(globals_ or {})
        ae.funcs = dict(funcs or {})
        ae.symbolic_cmp = symbolic_cmp
        ae.generic_loops = generic_loops
        for p_, t_ in (type_of or {}).items():
            ae.type_of[p_] = t_
        if self_type and args and isinstance(args[0], Sym):
            ae.type_of[term(args[0])] = self_type
        for p, t in (field_types or {}).items():
            ae.type_of[p] = t
        try:
            try:
                r = ae.call_func(fn, list(args), {})
                outcome = ("return", r)
            except _Raise as x:
                outcome = ("raise", x.exc.split(".")[-1], x.args_)
            out.append((val, outcome, ae.calls))
            if len(out) > max_paths:
                raise AnalysisError(f"dtable: more than {max_paths} paths in {fn.qual}")
        except NeedAtom as na:
            for c in reversed(choices(na.atom)):
                v2 = dict(val)
                v2[na.atom] = c
                stack.append(v2)
    return out


def explore_block(
    prog: Program,
    fn: FuncInfo,
    stmts: List[ast.stmt],
    env: Dict[str, Any],
    preset: Optional[Dict[Tuple, Any]] = None,
    inline: Optional[Callable[[str], bool]] = None,
    type_of: Optional[Dict[str, str]] = None,
    globals_: Optional[Dict[str, Any]] = None,
    funcs: Optional[Dict[str, Callable]] = None,
    const_attrs: Optional[Dict[str, Any]] = None,
    max_paths: int = 2000,
):
    """Like explore(), for a block of statements of `fn` (e.g. one loop body) under a given
    environment; falling off the end is outcome ('fallthrough',)."""
    out = []
    stack = [dict(preset or {})]
    while stack:
        val = stack.pop()
        ae = AbstractEval(prog, val, inline=inline, const_attrs=const_attrs)
        ae.globals = dict(globals_ or {})
        ae.funcs = dict(funcs or {})
        ae.cur.append(fn)
        for p_, t_ in (type_of or {}).items():
            ae.type_of[p_] = t_
        try:
            try:
                ae.block(stmts, dict(env))
                outcome = ("fallthrough",)
            except _Return as r_:
                outcome = ("return", r_.value)
            except _Raise as x:
                outcome = ("raise", x.exc.split(".")[-1], x.args_)
            out.append((val, outcome, ae.calls))
            if len(out) > max_paths:
                raise AnalysisError(f"dtable: more than {max_paths} paths in a block of {fn.qual}")
        except NeedAtom as na:
            for c in ([-1, 0, 1] if na.atom[0] == "ord" else [True, False]):
                v2 = dict(val)
                v2[na.atom] = c
                stack.append(v2)
    return out


def int_models(val: Dict[Tuple, Any], consts: Dict[str, int], hi: int = 5) -> List[Dict[str, int]]:
    """All small-integer models of the decided order atoms (consistency + spec evaluation)."""
    terms = []
    for a in val:
        if a[0] == "ord":
            for t in a[1:]:
                if t not in terms and t not in consts:
                    terms.append(t)
    models = []
    for combo in itertools.product(range(-1, hi), repeat=len(terms)):
        m = dict(zip(terms, combo))
        m.update(consts)
        ok = True
        for a, v in val.items():
            if a[0] == "ord":
                x, y = m[a[1]], m[a[2]]
                if ((x > y) - (x < y)) != v:
                    ok = False
                    break
        if ok:
            models.append(m)
    return models
