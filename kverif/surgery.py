"""M8 - small abstract heap interpreter for the rule-tree surgery routines.

Executes straight-line code with if/elif/isinstance/is over symbolic heap objects.  Each object
has a kind (a repo class), operand fields (_child_, left, right) and a graph parent (the edge
stored in its rustworkx node).  The `_parent_` property is *inlined from source* (getter: graph
parent or the parent the last evaluation installed, exactly as the source says; setter: interpreted
statement by statement); constructors of binary selectors use a summary that is itself checked
against the source of BinaryOperator.__post_init__ / _update_children_.
"""
from __future__ import annotations

import ast
from dataclasses import dataclass, field
from typing import Any, Dict, List, Optional, Tuple

from .model import Program, AnalysisError, FuncInfo, dotted, walk_local
from .astutil import src


class Obj:
    _n = 0

    def __init__(self, name: str, kind: str):
        self.name = name
        self.kind = kind  # class qual
        self.f: Dict[str, Any] = {"_child_": None}
        self.gparent: Optional["Obj"] = None
        self.eparent: Optional["Obj"] = None  # _eval_parent_: what the last evaluation installed (None on a never evaluated tree)

    def __repr__(self):
        return self.name


@dataclass
class NodeRef:
    owner: Obj


class Const:
    def __init__(self, text):
        self.text = text

    def __eq__(self, o):
        return isinstance(o, Const) and o.text == self.text

    def __hash__(self):
        return hash(self.text)

    def __repr__(self):
        return self.text


class _Ret(Exception):
    def __init__(self, v):
        self.v = v


class Heap:
    def __init__(self, prog: Program):
        self.prog = prog
        self.objs: List[Obj] = []
        self.current: Optional[Obj] = None
        self.fresh = 0
        self.binop = prog.cls("symbolic.BinaryOperator").qual
        self.se = prog.cls("symbolic.SymbolicExpression")
        self._check_summaries()

    # ---- summaries checked against source ------------------------------------------------
    def _check_summaries(self):
        bo = self.prog.classes[self.binop]
        pi = bo.methods.get("__post_init__")
        ok = pi is not None and any(
            isinstance(s, ast.Assign) and src(s.targets[0]) == "(self.left, self.right)" and "_update_children_(self.left, self.right)" in src(s.value) for s in walk_local(pi.node)
        )
        uc = self.se.methods.get("_update_children_")
        ok2 = uc is not None and any(isinstance(s, ast.Assign) and src(s.targets[0]).endswith("._node_.parent") and src(s.value) == "self._node_" for s in walk_local(uc.node))
        if not (ok and ok2):
            raise AnalysisError("surgery: constructor summary of binary operators no longer matches BinaryOperator.__post_init__/_update_children_")
        cp = self.se.methods.get("_current_parent_")
        if cp is None or "_symbolic_expression_stack_[-1]" not in src(cp.node):
            raise AnalysisError("surgery: _current_parent_ no longer returns the top of the expression stack")
        if self.se.methods.get("_parent_") is None:
            raise AnalysisError("surgery: _parent_ getter vanished")

    def new(self, name, kind) -> Obj:
        o = Obj(name, kind)
        self.objs.append(o)
        return o

    def construct(self, kind: str, left: Obj, right: Obj) -> Obj:
        self.fresh += 1
        x = self.new(f"X{self.fresh}" if self.fresh > 1 else "X", kind)
        x.f["left"], x.f["right"] = left, right
        for c in (left, right):
            if isinstance(c, Obj):
                c.gparent = x
        return x


class Interp:
    def __init__(self, heap: Heap, fn: FuncInfo):
        self.h = heap
        self.prog = heap.prog
        self.fn = fn
        self.setter = self.prog.lookup_setter(heap.se.qual, "_parent_")
        if self.setter is None:
            raise AnalysisError("surgery: _parent_ setter vanished")
        self.getter = heap.se.methods.get("_parent_")

    def isinstance_(self, v, clsexpr, mod) -> bool:
        if not isinstance(v, Obj):
            return False
        names = clsexpr.elts if isinstance(clsexpr, ast.Tuple) else [clsexpr]
        for n in names:
            q = mod.resolve(n)
            if q in self.prog.classes and self.prog.is_subclass(v.kind, q):
                return True
        return False

    def ev(self, e, env, mod):
        if isinstance(e, ast.Constant):
            return e.value
        if isinstance(e, ast.Name):
            if e.id in env:
                return env[e.id]
            return Const(e.id)
        if isinstance(e, ast.Attribute):
            d = dotted(e)
            if d and d.split(".")[0] not in env and not d.startswith("self"):
                return Const(d)
            b = self.ev(e.value, env, mod)
            return self.getattr_(b, e.attr)
        if isinstance(e, ast.Call):
            return self.call(e, env, mod)
        if isinstance(e, ast.BoolOp):
            if isinstance(e.op, ast.And):
                v = True
                for x in e.values:
                    v = self.ev(x, env, mod)
                    if not self.truth(v):
                        return v
                return v
            v = False
            for x in e.values:
                v = self.ev(x, env, mod)
                if self.truth(v):
                    return v
            return v
        if isinstance(e, ast.UnaryOp) and isinstance(e.op, ast.Not):
            return not self.truth(self.ev(e.operand, env, mod))
        if isinstance(e, ast.Compare) and len(e.ops) == 1:
            a, b = self.ev(e.left, env, mod), self.ev(e.comparators[0], env, mod)
            op = e.ops[0]
            if isinstance(op, ast.Is):
                return a is b
            if isinstance(op, ast.IsNot):
                return a is not b
            if isinstance(op, ast.Eq):
                return a == b
            if isinstance(op, ast.NotEq):
                return a != b
        if isinstance(e, ast.IfExp):
            return self.ev(e.body if self.truth(self.ev(e.test, env, mod)) else e.orelse, env, mod)
        if isinstance(e, ast.JoinedStr):
            return "<str>"
        if isinstance(e, ast.Starred):
            return self.ev(e.value, env, mod)
        if isinstance(e, ast.Tuple):
            return tuple(self.ev(x, env, mod) for x in e.elts)
        raise AnalysisError(f"surgery: no semantics for expression {src(e)!r} in {self.fn.qual}")

    def truth(self, v) -> bool:
        if isinstance(v, (Obj, NodeRef, Const)):
            return True
        return bool(v)

    def getattr_(self, b, attr):
        if isinstance(b, Obj):
            if attr == "_parent_":
                # property getter, interpreted from source
                env = {self.getter.params[0]: b}
                try:
                    self.block(self.getter.node.body, env, self.getter.module)
                except _Ret as r_:
                    return r_.v
                return None
            if attr == "_eval_parent_":
                return b.eparent
            if attr == "_node_":
                return NodeRef(b)
            if attr in ("left", "right", "_child_"):
                if attr in ("left", "right") and not self.prog.is_subclass(b.kind, self.h.binop):
                    raise AnalysisError(f"surgery: {b} ({b.kind.split('.')[-1]}) has no operand field {attr}")
                return b.f.get(attr)
            raise AnalysisError(f"surgery: attribute {attr} of heap objects is not modelled")
        if isinstance(b, NodeRef):
            if attr == "parent":
                return NodeRef(b.owner.gparent) if b.owner.gparent is not None else None
            if attr == "data":
                return b.owner
            if attr == "weight":
                return None
        if isinstance(b, Const):
            return Const(b.text + "." + attr)
        raise AnalysisError(f"surgery: attribute {attr} on {b!r}")

    def setattr_(self, b, attr, v, mod):
        if isinstance(b, Obj):
            if attr == "_parent_":
                # property setter, interpreted from source
                env = {self.setter.params[0]: b, self.setter.params[1]: v}
                try:
                    self.block(self.setter.node.body, env, self.setter.module)
                except _Ret:
                    pass
                return
            if attr in ("left", "right", "_child_"):
                b.f[attr] = v
                return
            if attr == "_eval_parent_":
                b.eparent = v
                return
            raise AnalysisError(f"surgery: store to {attr} not modelled")
        if isinstance(b, NodeRef):
            if attr == "parent":
                b.owner.gparent = v.owner if isinstance(v, NodeRef) else None
                return
            if attr == "weight":
                return
        raise AnalysisError(f"surgery: store to {attr} of {b!r}")

    def call(self, c: ast.Call, env, mod):
        f = c.func
        name = dotted(f) or src(f)
        if isinstance(f, ast.Name) and f.id == "isinstance":
            return self.isinstance_(self.ev(c.args[0], env, mod), c.args[1], mod)
        if isinstance(f, ast.Name) and f.id == "hasattr":
            o = self.ev(c.args[0], env, mod)
            a = c.args[1].value if isinstance(c.args[1], ast.Constant) else None
            if isinstance(o, Obj) and a == "_child_":
                return True  # every SymbolicExpression has the dataclass field _child_
            if isinstance(o, Obj) and a in ("left", "right"):
                return self.prog.is_subclass(o.kind, self.h.binop)
            raise AnalysisError(f"surgery: hasattr({o!r}, {a!r})")
        if name.endswith("_current_parent_"):
            return self.h.current
        if isinstance(f, ast.Name) and f.id == "chained_logic":
            return env.get("__new_branch__")
        q = mod.resolve(f) if isinstance(f, (ast.Name, ast.Attribute)) else None
        if q in self.prog.classes and self.prog.is_subclass(q, self.h.binop):
            a = [self.ev(x, env, mod) for x in c.args]
            return self.h.construct(q, a[0], a[1])
        if q in self.prog.functions and self.prog.functions[q].module is self.fn.module:
            g = self.prog.functions[q]
            args = []
            for x in c.args:
                if isinstance(x, ast.Starred):
                    continue
                args.append(self.ev(x, env, mod))
            env2 = dict(zip(g.params, args))
            env2["__new_branch__"] = env.get("__new_branch__")
            try:
                self.block(g.node.body, env2, g.module)
            except _Ret as r:
                return r.v
            return None
        if name.startswith("ValueError") or name.endswith("Error"):
            return Const("exception")
        raise AnalysisError(f"surgery: call {src(c)[:60]} is not modelled")

    def block(self, stmts, env, mod):
        for s in stmts:
            if isinstance(s, ast.Expr):
                if isinstance(s.value, ast.Constant):
                    continue
                self.ev(s.value, env, mod)
            elif isinstance(s, ast.Assign):
                v = self.ev(s.value, env, mod)
                for t in s.targets:
                    if isinstance(t, ast.Name):
                        env[t.id] = v
                    elif isinstance(t, ast.Attribute):
                        self.setattr_(self.ev(t.value, env, mod), t.attr, v, mod)
                    else:
                        raise AnalysisError(f"surgery: assignment target {src(t)}")
            elif isinstance(s, ast.If):
                self.block(s.body if self.truth(self.ev(s.test, env, mod)) else s.orelse, env, mod)
            elif isinstance(s, ast.Return):
                raise _Ret(self.ev(s.value, env, mod) if s.value is not None else None)
            elif isinstance(s, ast.Raise):
                raise _Ret(Const("raised"))
            elif isinstance(s, ast.Pass):
                pass
            elif isinstance(s, ast.While):
                n = 0
                while self.truth(self.ev(s.test, env, mod)):
                    self.block(s.body, env, mod)
                    n += 1
                    if n > 20:
                        raise AnalysisError("surgery: loop does not terminate on the abstract heap")
            else:
                raise AnalysisError(f"surgery: statement {type(s).__name__} at line {s.lineno} of {self.fn.qual} is not modelled")
