"""What is claimed, per property. A property appears in CLAIMS only once its checker exists and
passes on the unchanged tree."""
FIX_COMMITS = ["4e9e139", "5ee6583", "744f482", "eb93a13", "ceb972a", "a924d81", "2127bcd", "d45c8ce", "840f793", "c6f0e0e", "026690a", "cee72dd", "d6006a0", "846c668", "74129bf", "7f18343", "8354688", "82fa6bb", "6319c34", "33ebaa4", "1e65682", "d23cb3d", "8d23fc0", "35e79d8", "36df0dd", "6dde094", "fd9c08b", "1b70461", "8854632", "4974803", "5139c33", "e00fad1", "fbec162", "23eb645", "274cad8", "0023d85", "44adde2", "76b905b", "e323902", "9a6c065", "80ad2cb", "3762e87", "314e3a1", "ea04832", "0bb1cf1", "4f512f3", "a2fb781", "e33bf11", "451dfe4", "f6c4920", "2d8299b", "1f6cd1f", "8050331", "4e55637", "ee3fa38", "04aff6d", "c4e307b", "bdcee01", "3887875", "5e627f5", "ac6e838", "9a6d0ed", "afc71e1", "9ae246a", "20132f0", "73535cf", "440ad6a", "ab740e4", "5939070", "4bdacbc", "f1d8441", "114f63f", "11a422d", "5424fcc", "6ee40c3", "d6451a3", "cd92fce", "61fec09", "017afb1", "093bd0e", "79343b6", "a8dcc46", "fad7d35", "fcce7e9", "2c760f5", "5534d6b", "9a315c0", "8de2d81", "aff81d0", "10adfb2", "c0033f2", "ba27ae5", "d2dc558", "0a59135", "50d0cbd"]

CLAIMS = {
    "C09": dict(
        text="Decides the whole count-enforcement logic: the decision table of every constraint class and constructor "
             "is extracted from the AST over the finite domain of orderings x done and compared cell by cell with the "
             "stated table (exhaustive for all integers), and the CFG of the quantifier's evaluation loop is checked for "
             "count-once / assert-before-yield / final-assert. Residual assumption: one child result = one solution (C02).",
        ref="DESIGN.md §3 C09",
        note="trusts CPython's ast parser, the abstract evaluator of kverif/dtable.py and that dataclass __init__ calls __post_init__",
        technique="static analysis: finite decision-table extraction by abstract AST evaluation + CFG dominance",
    ),
    "C19": dict(
        text="Decides that no builtin exception raised by a tag-resolution step (read of the tag, split, import, attribute "
             "lookup, class test, registry lookup, error construction) can leave from_json unconverted, for every JSON kind "
             "of tag value: typestate + exception-flow analysis over a finite kind domain with an explicit effect table. "
             "Exceptions from importing third-party module bodies and from user _from_json are outside the property.",
        ref="DESIGN.md §3 C19",
        note="trusts the effect table of str methods / import_module / getattr / issubclass / dict.get (probed on CPython 3.12) and the builtin exception hierarchy",
        technique="static analysis: typestate and exception-flow abstract interpretation of the resolver's AST",
    ),
    "C18": dict(
        text="Decides the structural necessary conditions of the JSON round trip: the writer tags every object with module+'.'+name "
             "of its exact class (base to_json, registered serialisers, overrides keep super()), and reader and writer are mirror "
             "images (shared constants, same dispatch order, elementwise recursion, one registry key, split at the last dot, "
             "dispatch on the resolved class). Equality of reconstructed values (json's and user code's part) is not decided.",
        ref="DESIGN.md §3 C18",
        note="trusts json.dumps/loads on scalars and lists, and user _from_json to invert user to_json",
        technique="static analysis: sibling cross-check of writer/reader ASTs with resolved names",
    ),
    "C16": dict(
        text="Decides, for every write path the property names, the structural conditions that make it keep the data and infer: "
             "the finite table of element-adding list/set mutators is resolved through the monitored classes' MRO (override, "
             "per-element hook call, builtin store, recording not suppressed), the hook's decision table records whenever an owner is "
             "bound, the setter's CFG never reads the assigned value after clearing the live container (self-assignment, +=, |=), no set "
             "conversion precedes a list container, single-valued assignment stores and records. The closure of inferences is C15.",
        ref="DESIGN.md §3 C16",
        note="trusts the frozen table of list/set mutators that can add elements and CPython's evaluation order of augmented assignment on descriptors",
        technique="static analysis: MRO-resolved override coverage, call-closure reachability, CFG ordering, decision table of the hook",
    ),
    "C12": dict(
        text="Decides argument alignment at every merge site (skipped signature prefix = parameters not covered by the forwarded "
             "positional arguments), the dispatch shape of both wrappers (symbolic test on the merged mapping, symbolic path runs "
             "nothing, concrete path forwards unchanged) and the per-binding instantiation (one keyword call, predicate called, "
             "falsity = not bool(result), no cache). User predicate bodies are outside the property.",
        ref="DESIGN.md §3 C12",
        note="trusts inspect.signature's parameter order; truth contributed to enclosing operators is C01",
        technique="static analysis: call-site argument/signature alignment rule + dispatch-shape check on resolved ASTs",
    ),
    "C13": dict(
        text="Decides the structural conditions of the census: every allocator in the Symbol cone registers what it returns (CFG "
             "dominance; registration excludes only predicates), the lookup covers the type and its subclasses with each class "
             "once (de-duplication on the def-use path), the public evaluation entry sweeps dead instances first, and the registry "
             "is read inside the evaluation closure of the call graph. The census over arbitrary histories is covered by induction "
             "over single operations, not enumerated.",
        ref="DESIGN.md §3 C13",
        note="trusts CPython's __subclasses__() and that instances are created through their class; one known finding (SG-EVALTIME)",
        technique="static analysis: CFG must-pass-through for registration, call-graph phase closure (who-may-call), def-use dedup rule",
    ),
    "C14": dict(
        text="Decides the inductive step of history independence: every parallel structure written on an insertion path of the symbol "
             "graph is purged on the node-removal path; id()-keyed entries are removed through a stored id, only while owned, and "
             "lookups validate the referent; existence check / edge / index share one key and inference is control-dependent on the "
             "'newly added' verdict. Arbitrary histories are not enumerated.",
        ref="DESIGN.md §3 C14",
        note="trusts rustworkx's index recycling / edge removal semantics and CPython's id() reuse",
        technique="static analysis: effect analysis (add/remove sites per structure over call closures), id-key hygiene rule, decision table of add_relation",
    ),
    "C15": dict(
        text="Discharges that the incremental update is an instance of the fixpoint rule whose order independence follows by induction: "
             "all three inference families run on every newly added edge, each derives edges of the same class marked inferred and sends "
             "them through the same procedure, the transitive family has both directions with the right neighbourhoods and property filter, "
             "inferred edges are written back, nothing in ontomatic adds a relation behind the procedure's back, and each derived edge's "
             "field belongs to its source's class. The closure itself is not computed.",
        ref="DESIGN.md §3 C15",
        note="the least-fixpoint argument is a paper induction over the update rule; graph coherence is C14",
        technique="static analysis: must-call / who-may-call rules and sibling cross-check of (source, field) provenance on resolved ASTs",
    ),
    "C17": dict(
        text="Decides (a) field classification: the WrappedField predicates are evaluated abstractly from source over every category "
             "of the supported annotation grammar and compared cell by cell with what the annotation dictates (exhaustive over the "
             "grammar's categories); (b) the two relation builders insert an edge for every mapped direct base / mapped field endpoint "
             "with the right orientation, skipping only unmapped ends, public fields only; (c) no non-constructive method of the diagram "
             "mutates state reachable from self (effect analysis with a shallow-copy alias model). Run-time forward-reference resolution "
             "is not decided.",
        ref="DESIGN.md §3 C17, appendix C",
        note="trusts the typing facts tabled in kverif/typemodel.py (origin/args per category) and copy.copy's sharing semantics",
        technique="static analysis: abstract evaluation over a finite annotation-category domain, CFG must-pass-through, effect/alias analysis",
    ),
    "C06": dict(
        text="Decides the generator-side necessary conditions visible in source: field classification over the annotation grammar "
             "(exhaustive over its categories), dispatch of every category to the creator the statement demands with only private fields "
             "skipped, the mapper-argument table, import/emit pairing of every module-qualified name, non-unification of identifier "
             "templates within a namespace, and no output-producing iteration over an unordered set (determinism). That SQLAlchemy accepts "
             "the generated module (import, configure_mappers, create_all) is not decided.",
        ref="DESIGN.md §3 C06, appendix C",
        note="trusts the typing facts in kverif/typemodel.py; one known finding (self-referential collection names)",
        technique="static analysis: two-stage finite decision-table extraction, emit/import pairing by CFG dominance, template unification, set-iteration lint with positive control",
    ),
    "C20": dict(
        text="Decides the absence of strong chains from process-lifetime roots to user objects in a type-level heap graph built from "
             "field annotations: roots are discovered (ClassVar / module-level mutable containers, singleton tables, lru_cache tables), "
             "weak references / InitVars / class-valued fields carry no edge, scoped stacks are exempt by an enter/exit pairing rule; "
             "plus that the instance graph and monitored containers refer to instances weakly and that node removal leaves no bookkeeping "
             "behind (SG-COHERENCE / IDKEY shared with C14). Actual reclamation by the collector is not decided.",
        ref="DESIGN.md §3 C20",
        note="the heap graph is built from annotations, not observed stores; four known findings (expression registry, expression graph, two caches)",
        technique="static analysis: reachability in a type-level heap graph with automatically discovered roots; effect analysis of the registry",
    ),
    "C04": dict(
        text="Decides three structural necessary conditions of the round trip's sharing structure: id()-keyed memo tables keep the keyed "
             "object alive (or only restore a key still held), memo lookup dominates allocation and registration dominates descent in "
             "both directions with identity-preserving allocate-then-initialise, and writer and reader classify relationships over "
             "direction x uselist by the same extracted decision table. Isomorphism of the converted graph (values, order, alternative "
             "mappings) is not decided.",
        ref="DESIGN.md §3 C04",
        note="trusts CPython's id() reuse and SQLAlchemy's three relationship directions",
        technique="static analysis: id-key hygiene rule, CFG dominance, decision-table agreement between sibling functions",
    ),
    "C07": dict(
        text="Decides the rejection clause and the variable-identity clause structurally: the set of concrete expression classes is "
             "computed from the hierarchy and pushed through the translator's isinstance dispatch at every inspected position (condition, "
             "comparator operand, quantifier, select-like): each class is translated or raises an EQLTranslationError - no pass-through, no "
             "sample substitution, no attribute that only some kinds have; all six comparison operators keep operator and operand order; "
             "the leaf variable of an attribute chain must reach the FROM-element choice or a rejection. Equivalence of accepted "
             "translations is not decided.",
        ref="DESIGN.md §3 C07",
        note="two known findings (variable operand sampled; two variables of one class conflated)",
        technique="static analysis: exhaustive class-hierarchy x dispatch-table check, def-use of the leaf variable over the call closure",
    ),
    "C11": dict(
        text="Decides the per-attribute expansion of patterns exhaustively over its four boolean inputs (condition table), the type-filter and "
             "flatten rules of nested matches, the operand slots of contains/in_ down to the comparator's application, and that no "
             "engine-side membership/equality test in the evaluation closure compares unwrapped user values (identity-based "
             "de-duplication). Equivalence of whole patterns with explicit queries on arbitrary data is not decided.",
        ref="DESIGN.md §3 C11",
        note="trusts HashedValue's identity equality; the evaluation of the produced conditions is C01",
        technique="static analysis: finite decision-table extraction (16 + 5 + 8 cells), taint lint over the evaluation closure with positive control",
    ),
    "C08": dict(
        text="Decides 'no written branch is silently ignored' and 'in the order written' structurally: the surgery routines are executed on an "
             "abstract heap (both tree representations, _parent_ setter inlined from source) for 43 initial shapes x 3 routines and five "
             "postconditions each; the selectors' evaluation bodies are checked on their CFGs (left conclusions only without a true "
             "refinement result, first true branch for else-if, both for also-if, selection cleared after each emission, refinement "
             "evaluated under the parent's binding). The full ripple-down semantics on arbitrary trees and data is not decided; "
             "re-evaluation of rule queries is reported under C03.",
        ref="DESIGN.md §3 C08",
        note="shapes deeper than two selector levels are assumed to behave like the enumerated ones; constructor summary is re-checked against source on every run",
        technique="static analysis: abstract heap interpretation of the tree-surgery routines over enumerated shapes + CFG control-dependence on the selectors",
    ),
    "C01": dict(
        text="Decides three structural necessary conditions of soundness and row consistency on provenance summaries of every concrete "
             "expression class's evaluation (abstract interpretation with self/super calls inlined): binding threading between the "
             "sub-expressions of one node (EP-THREAD), falsifying bindings on every result that can be flagged false for each operator that "
             "inherits the generic negation, and the shape of every custom negation (EP-NEG), and the truth filter between conditions and "
             "selected variables (EP-FILTER). First-order correctness of whole queries on data needs an oracle evaluator and is not decided.",
        ref="DESIGN.md §3 C01",
        note="assumes a child's result bindings extend the bindings it was evaluated with; rule-tree selectors are not user-negatable",
        technique="static analysis: provenance (may/must origin) abstract interpretation of the evaluation protocol with inlining",
    ),
    "C02": dict(
        text="Decides the structural conditions of 'one result per satisfying assignment' on the same summaries: every node that binds its own "
             "id passes an existing binding through once and enumerates only when unbound (EP-BOUND); AND evaluates its right operand at "
             "one site, under 'left true', once per left result with its bindings, and emits a false left once; the else-if form evaluates its "
             "right operand only under 'left false'; only the union form has a second pass (EP-GATE). Counting is QC-PATH (C09). Actual "
             "multiplicities on data are not decided.",
        ref="DESIGN.md §3 C02",
        note="induction hypothesis: each child result is one solution of the child",
        technique="static analysis: guard/control-dependence and provenance facts from the evaluation-protocol abstract interpreter",
    ),
    "C03": dict(
        text="Decides the absence of state carried on shared expression nodes from one evaluation into another, over the evaluation closure "
             "of the call graph: every field evaluation accumulates into has a reset in that closure (CARRY-1), no stored one-shot iterator of "
             "an object that outlives the evaluation is advanced by it (CARRY-2), and each _evaluate__ installs its per-evaluation parent "
             "before evaluating children and hands itself down (EP-HANDSHAKE, CFG dominance). Equality of result sequences under arbitrary "
             "interleavings is not decided.",
        ref="DESIGN.md §3 C03",
        note="scratch flags overwritten before each read are not carried state; one known finding (shared one-shot domain generator)",
        technique="static analysis: effect analysis (accumulate/reset sites) over the call-graph evaluation closure + CFG dominance",
    ),
    "C10": dict(
        text="Decides both halves structurally with taint analyses over phase closures of the call graph: on the construction closure "
             "(seeded at the public builders' user-data parameters, propagated through calls, dataclass construction and field reads, with "
             "isinstance / exact-builtin-container / is_iterable refinements) user values are only stored, passed on, lazily wrapped or "
             "type-probed; on the evaluation closure result streams and domains flow only into streaming constructs (no list/sorted/len, "
             "eager comprehension, star-unpacking or itertools.product), with the universal quantifier and the() exempt by name and reason. "
             "The exact prefix consumed per result is not decided.",
        ref="DESIGN.md §3 C10",
        note="seed table of user-data parameters (kverif/rules/c10.py SEEDS); protocol attributes _name_ are taken to exist on expressions only",
        technique="static analysis: interprocedural taint (RAW/BOX kinds) over BUILD and EVAL call-graph closures, with positive control",
    ),
}

_PENDING = "checker not built yet in this round (planned, see DESIGN.md)"
NOT_APPLICABLE = {
    "C05": "behaviour lives in SQLAlchemy's runtime mapper configuration and the database, driven by a generated module that is program output, not source; no structural clause is in reach of static analysis (generator-side conditions are decided under C06)",
}
for i in range(1, 21):
    p = f"C{i:02d}"
    if p not in CLAIMS and p not in NOT_APPLICABLE:
        NOT_APPLICABLE[p] = _PENDING

# rules added after the seeded rounds: one sentence each, inserted before the closing "not decided" sentence
ADDENDA = {
    "C01": "Also decided: the universal quantifier evaluates its condition on every path through one iteration over the quantified values (EP-UNIVERSAL, CFG); "
           "a custom negation is read as a formula and compared with the operator's negation by truth table over a two-element model, and an operator swap "
           "must use exact complements only.",
    "C02": "Negations are exact duals (EP-NEG, shared with C01: a wrong dual drops satisfying assignments).",
    "C03": "State filled over several results must be cleared within the evaluation step, not only once per evaluation (CARRY-SHARED: otherwise two live "
           "iterators of one expression share it).",
    "C04": "A memo entry taken out temporarily is back before related objects are converted (DAO-WINDOW, CFG path search); collections are converted element "
           "by element without value de-duplication (DAO-COLLECT).",
    "C07": "A join between two variables of one mapped hierarchy is rejected; the(...) fetches through the strict one-row call with no row-collapsing or limiting "
           "call in the fetch chain or the statement (SQL-FETCH, row-effect table of the SQLAlchemy API); the join cache distinguishes the FROM element (SQL-ALIAS).",
    "C10": "Property getters read during construction belong to the construction closure, and a field that holds a wrapper around a user stream is never "
           "iterated, indexed or drained through the wrapper's draining members.",
    "C14": "Registration of a wrapper overwrites the slot of its instance's id (a dead, unswept wrapper must not keep it).",
    "C15": "The predicate that selects super-property fields accepts every proper ancestor of the descriptor class (PD-SUPERS, evaluated over a model hierarchy).",
    "C16": "Every path of the setter that handles a live container passes the re-populating loop, or the in-place operators are hooked (PD-AUG, CFG path search).",
    "C17": "A hand-rolled memo table of the layer is keyed by every input the memoised value reads, taking the key object's equality into account (CD-MEMO).",
    "C19": "A module that is found but fails while importing (ImportError) counts as a module that cannot be imported.",
}
for _k, _v in ADDENDA.items():
    CLAIMS[_k]["text"] = CLAIMS[_k]["text"].rstrip() + " " + _v
ADDENDA2 = {
    "C01": "EP-OPERAND also demands that every logical operator (negation included) counts as a condition position and that no result is flagged from sticky node state; "
           "EP-QUANT: every logical operator can report falsity and exists() is keyed by the free variables; EP-EMPTY: loops over child results may run zero times.",
    "C02": "The filter that decides what counts as a variable of a side of or_ is evaluated on model nodes (domain variable kept, literal and call dropped); DOMAIN-CACHE is shared.",
    "C07": "Substring membership is never translated with a LIKE-family operator (SQL-MEMBERSHIP); a second equality between joined variables stays a condition and a join under a disjunction is rejected.",
    "C08": "Selection of alternative / next_rule conclusions is an extracted decision table; the side flags are scoped; the abstract heap carries the evaluation-time parent and runs pairs of routines.",
    "C09": "Every quantifier construction of the shared builder helper forwards the constraint on every path.",
    "C10": "A domain mapping never materialises the value it maps.",
    "C11": "DOMAIN-CACHE and EP-QUANT are shared (pattern domains are variable domains; match_any compiles to exists).",
    "C12": "EP-OPERAND is shared: a call's result is flagged from its truth only in condition position.",
    "C13": "DOMAIN-CACHE is shared.",
    "C15": "PD-CLOSURE and PD-OWNER work on a symbolic summary of the whole update procedure (methods inlined, loops run once with a generic element) instead of method shapes.",
    "C17": "Two classification-only categories (collection of enum members, Type[Enum]) are in the oracle table.",
    "C19": "The registry is looked up by exactly the resolved class (JS-REGISTRY).",
    "C20": "cached_property values are fields of the heap graph.",
}
for _k, _v in ADDENDA2.items():
    CLAIMS[_k]["text"] = CLAIMS[_k]["text"].rstrip() + " " + _v

ADDENDA3 = {
    "C01": "Round 4: the whole condition of a nested query is a condition position, every emission of an own value is judged, the key of exists() holds the chain below the quantified expression.",
    "C02": "Round 4: variables a side quantifies itself are not counted when the form of or_ is chosen; the emission for a decided left operand has no further guards.",
    "C03": "Round 4: the reset that clears carried state runs for every concrete class (MRO reachability), markers set inside generators are cleared by the reset, nothing that walks up the tree is memoised; a second query over a sub-expression re-parents it (known).",
    "C04": "Round 4: field values are never truth-tested, a converted collection is a new object (None excepted).",
    "C07": "Round 4: attribute chains through index / call / flatten are rejected, literal collections of every builtin type are unwrapped.",
    "C08": "Round 4: shares the reset-reachability obligation of CARRY-1.",
    "C09": "Round 4: the error objects do not touch result values (QC-ERRORS).",
    "C10": "Round 4: the() / exactly(n) stop pulling once the count decides; Conclusion values are seeded as user data.",
    "C11": "Round 4: collection-ness of an attribute is evaluated on the type model for every annotation category; the type-filter table is derived from the statement; == / != on two collections compares sets on every path; EP-THREAD is shared.",
    "C12": "Round 4: the name -> argument mapping of every symbolic dispatch site comes from the callable's signature; bindings carried between values of a quantified variable hold no call results.",
    "C13": "Round 4: instances are tested with `is None`, never for truth; the lazy enumeration skips wrappers whose instance is gone (which also discharges the sweep obligations for the census).",
    "C14": "Round 4: edges with a dead endpoint are not handed to the inference procedure; SG-SWEEP is shared.",
    "C15": "Round 4: no early exit from an edge-deriving loop; monitored containers compare element-wise; instances are not truth-tested; assignment after an inference leaves field and graph in disagreement (known: no retraction).",
    "C16": "Round 4: bulk arguments are iterated once and never while storing into the same list, slices are hooked element-wise, the backing container is the field's own, containers compare element-wise.",
    "C17": "Round 4: accessors see parallel edges; every spelling of an optional is in the type model.",
    "C18": "Round 4: tagged objects are decided before plain values in the writer; no module-level state survives a call.",
    "C19": "Round 4: the operations of the error initialisers on the stored tag are part of the exception flow.",
}
for _k, _v in ADDENDA3.items():
    CLAIMS[_k]["text"] = CLAIMS[_k]["text"].rstrip() + " " + _v

ADDENDA4 = {
    "C01": "Round 5: selected values are never filtered on truth; the union form reports falsity only where both operands were evaluated; exists gives one verdict per binding and a false one over an empty domain.",
    "C02": "Round 5: shares EP-SELECTED.",
    "C03": "Round 5: the reset walk is computed fresh on every evaluation; a node looks upward only after this evaluation told it its parent.",
    "C04": "Round 5: the optional conversion states are of classes without a truth value of their own (or tested with `is None`).",
    "C07": "Round 5: no state shared between translations through defaults or class attributes; every quantifier field evaluation consults is looked at; an equality join has the selected variable on one side.",
    "C08": "Round 5: the selection table of the alternative is stated over the situations of an else-if output, and the state it asks is maintained for every operand kind; shares CARRY-RESET-REACH.",
    "C09": "Round 5: no constraint class has a truth value of its own while the quantifier tests the constraint by truth.",
    "C11": "Round 5: every non-class, non-variable, non-None pattern argument becomes a literal (decision table of the factories).",
    "C13": "Round 5: the library allocates Symbol instances through the class's own __new__ only.",
    "C14": "Round 5: nodes leave the instance graph on the purging path only.",
    "C17": "Round 5: memoised values of the diagram are stored state for the read-only analysis.",
    "C18": "Round 5: the registered UUID pair is an inverse (constructor gets the stored text and nothing else).",
    "C19": "Round 5: the default deserialisation hook has no path to a normal return.",
    "C20": "Round 5: shares the purging-path obligation of SG-COHERENCE.",
}
for _k, _v in ADDENDA4.items():
    CLAIMS[_k]["text"] = CLAIMS[_k]["text"].rstrip() + " " + _v

ADDENDA5 = {
    "C01": "Round 6: shares EP-BOUND.",
    "C02": "Round 6: every expression kind stays symbolic as an argument of a symbolic call.",
    "C03": "Round 6: no default argument of the evaluation modules constructs an object.",
    "C04": "Round 6: keyword-only constructor parameters are among the argument names; no constructed default arguments.",
    "C07": "Round 6: every value of a literal collection reaches IN (...).",
    "C09": "Round 6: shares DOMAIN-CACHE (an abandoned stream loses no value).",
    "C10": "Round 6: unpacking a stream counts as draining it; a stream handed to a lazy wrapper is stored, not read.",
    "C11": "Round 6: no memoised member of a pattern is read before the fields it depends on are assigned.",
    "C12": "Round 6: a literal's domain is [data] on every path; every expression kind stays symbolic as an argument.",
    "C13": "Round 6: shares IDKEY.",
    "C14": "Round 6: graph wrappers have no truth value of their own.",
    "C15": "Round 6: a sub-property asserted in the constructor raises (known).",
    "C16": "Round 6: positional mutators store through the builtin of the same name at the caller's position, resolved before the hook can grow the list.",
    "C17": "Round 6: variadic tuples are in the type model; no constructed default arguments.",
    "C18": "Round 6: no constructed default arguments in the serializer.",
    "C19": "Round 6: module-level __getattr__ hooks of the package let only AttributeError out.",
    "C20": "Round 6: shares STREAM-LAZY.",
}
for _k, _v in ADDENDA5.items():
    CLAIMS[_k]["text"] = CLAIMS[_k]["text"].rstrip() + " " + _v
ADDENDA6 = {
    "C01": "Round 7: a comparison's verdict is its operator applied once to the operand values of the binding; computed variables are not part of the key of exists; the structural tree decides a node's role only when it has no evaluation parent (EP-SELECTED is discharged by that fact).",
    "C02": "Round 7: shares CMP-APPLY and the argument-identity obligation of ARG-SYMBOLIC.",
    "C03": "Round 7: a shared one-shot source is advanced only under a cache discipline every live iteration re-reads (the round-1 finding is repaired); no generator of a long-lived object yields from inside an iteration over a live view of a container it mutates.",
    "C04": "Round 7: whether from_dao hands a constructor argument over never depends on the value found.",
    "C06": "Round 7: shares WF-RESOLVED.",
    "C07": "Round 7: the operands of a disjunction are translated while the mark is raised; a table is recorded as joined only if that FROM element was joined.",
    "C11": "Round 7: which plain pattern values are collections is decided per kind of value over Python's own isinstance table.",
    "C12": "Round 7: every parameter of a symbolic call gets the caller's argument itself.",
    "C13": "Round 7: the subclass enumeration is not memoised; shares LIVE-ITER; IDKEY is discharged while the domain iterator delivers each identity once.",
    "C14": "Round 7: every relation is an edge of its own (multigraph, per-edge readers).",
    "C15": "Round 7: shares REL-EDGES; relations over one managed field have one identity whichever wrapper they were built from.",
    "C16": "Round 7: the snapshot read after the clear is a fresh container on every path; a slice rebuilt from indices() copes with counting down; shares PD-FIELD.",
    "C17": "Round 7: mixin enums and subclasses of value types are in the type model; resolved types come from get_type_hints.",
    "C18": "Round 7: JSON leaves pass through reader and writer unchanged.",
    "C19": "Round 7: no library error is caught and relabelled by a converting handler around nested deserialisation.",
    "C20": "Round 7: shares REL-EDGES.",
}
for _k, _v in ADDENDA6.items():
    CLAIMS[_k]["text"] = CLAIMS[_k]["text"].rstrip() + " " + _v
ADDENDA7 = {
    "C01": "Round 8: bound values are tested for truth only in condition position (HV-TRUTH); shares LIVE-ITER; mappings are not compared by their keys.",
    "C02": "Round 8: shares EP-OPERAND (sticky flag) and HV-TRUTH.",
    "C03": "Round 8: the cache and source of the caching iterator are read by its own class only.",
    "C04": "Round 8: the relationships below an alternatively mapped DAO are the parent's and the complement; the DAO lookup is exact; a Set field comes back as a list (known).",
    "C07": "Round 8: the DAO lookup is exact; a relationship equality behind a longer chain and a condition on a second variable of the selected variable's hierarchy are rejected (the round-1 finding is repaired).",
    "C08": "Round 8: the selectors' memories are separate objects (no dict.fromkeys over a constructed value).",
    "C09": "Round 8: shares HV-TRUTH (a falsy solution is counted).",
    "C11": "Round 8: shares HV-TRUTH.",
    "C12": "Round 8: shares EP-BOUND and HV-TRUTH.",
    "C15": "Round 8: shares SG-PURGE-BOTH.",
    "C16": "Round 8: shares SG-PURGE-BOTH; the recording hook never iterates the element it is handed.",
    "C18": "Round 8: the registry holds the registered callables strongly.",
    "C20": "Round 8: no method of the symbol graph stores a raw instance in the graph.",
}
for _k, _v in ADDENDA7.items():
    CLAIMS[_k]["text"] = CLAIMS[_k]["text"].rstrip() + " " + _v

ADDENDA8 = {
    "C01": "Round 9: a Union reports a binding false exactly when both sides are false; for_all completes results that leave a variable unbound before judging them.",
    "C02": "Round 9: shares QC-PATH.",
    "C03": "Round 9: the domain cache of a variable is set up once, in its constructor.",
    "C04": "Round 9: a DAO is created without running a constructor that does work; the alternatively mapped ancestor is looked for along the whole MRO.",
    "C06": "Round 9: products of memoised steps are kept as they are; the ordering graph has an edge from the nearest ancestor in the diagram.",
    "C07": "Round 9: the truth of a translated clause follows the operator, not the operand's Python truth.",
    "C08": "Round 9: shares HV-TRUTH.",
    "C11": "Round 9: shares CARRY-1 (no mapping keeps values by identity between evaluations).",
    "C12": "Round 9: every place results of the condition are taken from projects their bindings on the free variable ids.",
    "C13": "Round 9: the singleton metaclass returns the registered instance whatever the arguments.",
    "C14": "Round 9: identity is a function of the object alone (no state kept between calls decides it).",
    "C15": "Round 9: the first assignment of a managed field is recorded like any other.",
    "C16": "Round 9: in-place operators are bulk adders and keep duplicates.",
    "C18": "Round 9: registration in the type tables is unconditional.",
    "C19": "Round 9: helpers are followed by the escape analysis; RecursionError from the import is converted.",
    "C20": "Round 9: shares PD-FIELD.",
}
for _k, _v in ADDENDA8.items():
    CLAIMS[_k]["text"] = CLAIMS[_k]["text"].rstrip() + " " + _v

ADDENDA9 = {
    "C01": "Round 10: no condition given to a constructor is tested for truth while the chain is folded; a predicate instance is judged by its verdict; a domain that is given is the domain (the symbol graph stands in for None only).",
    "C02": "Round 10: a node met again for bound values repeats the answer recorded in the bindings.",
    "C03": "Round 10: the evaluation parent is written by evaluations only; shares NODE-FLAG.",
    "C04": "Round 10: DAO-VALUE-TRUTH covers every dynamic field read.",
    "C06": "Round 10: the fields a table leaves to its ancestors are those of every ancestor.",
    "C07": "Round 10: != is the null-safe inequality; an attribute in condition position is translated by the Python truth of its value.",
    "C08": "Round 10: expression nodes are told apart by identity; shares COND-FOLD.",
    "C09": "Round 10: shares DOMAIN-GIVEN.",
    "C11": "Round 10: type filter for optional attributes; a nested select is selected once, as the variable it is resolved on.",
    "C13": "Round 10: a failed registration fails the construction; one table of singleton instances per process; shares DOMAIN-GIVEN.",
    "C14": "Round 10: a managed collection met through an instance is bound to that instance.",
    "C15": "Round 10: the field of a descriptor class is the field managed by exactly that class.",
    "C16": "Round 10: a write the container rejects is rejected before anything is recorded.",
    "C18": "Round 10: shares SG-SINGLETON.",
    "C19": "Round 10: the documented errors accept the attribute writes that raising and propagating perform.",
}
for _k, _v in ADDENDA9.items():
    CLAIMS[_k]["text"] = CLAIMS[_k]["text"].rstrip() + " " + _v

ADDENDA10 = {
    "C01": "Round 11: the identifier of a hashed value is injective (identity, never a hash).",
    "C02": "Round 11: shares CARRY-1; no memoised method of the evaluation closure looks at a user object.",
    "C03": "Round 11: the reset hooks are called when an evaluation starts only; no memo keyed by values.",
    "C04": "Round 11: writer and reader take the nearest alternatively mapped ancestor; what its mapping stores is read through the mapping.",
    "C06": "Round 11: nothing in the generator remembers objects by id().",
    "C07": "Round 11: a path join relates the FROM element the path has reached; the anchor of an attribute equality is the selected variable itself.",
    "C08": "Round 11: shares EP-OPERAND; the memory of produced conclusions is keyed by every bound expression below the conclusion.",
    "C09": "Round 11: the constraint tables evaluate the truth of a bound.",
    "C11": "Round 11: shares DOMAIN-GIVEN.",
    "C13": "Round 11: shares STREAM-LAZY.",
    "C14": "Round 11: a descriptor remembers nothing about instances by id().",
    "C15": "Round 11: the role taker is found by the kind of the edge.",
    "C16": "Round 11: a container under construction is filled before it is bound; the in-place operators are bulk adders; assigned elements are recorded.",
    "C17": "Round 11: node indices are never tested for truth.",
    "C19": "Round 11: constructing a documented error only formats its payload.",
    "C20": "Round 11: a wrapper compares instances only when both are alive.",
}
for _k, _v in ADDENDA10.items():
    CLAIMS[_k]["text"] = CLAIMS[_k]["text"].rstrip() + " " + _v

ADDENDA11 = {
    "C01": "Round 12: shares IDENT-DEDUP (rows of values); variables quantified inside the condition of for_all are not free.",
    "C02": "Round 12: shares LIVE-ITER.",
    "C03": "Round 12: a collection a generator clears after a yield is also cleared when an evaluation starts.",
    "C06": "Round 12: the name of an association table is made from the whole table and field names.",
    "C07": "Round 12: a path join inside a disjunction is an outer join.",
    "C10": "Round 12: results are not kept in a local collection and handed on later.",
    "C11": "Round 12: IDENT-DEDUP reaches the domain mappings and the elements they unnest.",
    "C12": "Round 12: shares COND-FOLD.",
    "C13": "Round 12: add_node files the wrapper in the list the per-class table holds.",
    "C14": "Round 12: no module-level memo keyed by a node index or an id().",
    "C16": "Round 12: emptying a managed container does not depend on looking its elements up.",
    "C17": "Round 12: a class is looked up in the diagram by the class object, never by its name.",
    "C19": "Round 12: no caller of from_json inside the library swallows the documented errors; getattr on a module can raise ImportError.",
}
for _k, _v in ADDENDA11.items():
    CLAIMS[_k]["text"] = CLAIMS[_k]["text"].rstrip() + " " + _v

ADDENDA12 = {
    "C01": "Round 13: shares PRED-ONCE; text is told from collections by isinstance; a wrapper is unwrapped only when it is a HashedValue.",
    "C02": "Round 13: text is told from collections by isinstance (subclasses of str / bytes are text).",
    "C03": "Round 13: shares SG-COHERENCE (the sweep at the start of every evaluation removes the dead wrapper itself).",
    "C06": "Round 13: the parent table is looked for along the whole MRO.",
    "C07": "Round 13: the translator reads a variable's values through its caching domain.",
    "C08": "Round 13: the node a with-block writes to is fixed when the block is entered.",
    "C09": "Round 13: the constraint given to an() reaches the quantifier unchanged.",
    "C11": "Round 13: the quantified pattern factories set the flag their name says.",
    "C12": "Round 13: the variables of a call include the variables of its arguments, recursively.",
    "C13": "Round 13: shares HV-IDENT.",
    "C15": "Round 13: shares PD-ALIAS.",
    "C16": "Round 13: shares IDKEY.",
    "C17": "Round 13: the parameter of a generic base is found for subclasses of the parametrised class.",
    "C19": "Round 13: resolving a tag consults the import system every time.",
    "C20": "Round 13: no caught exception is stored on an object the library keeps.",
}
for _k, _v in ADDENDA12.items():
    CLAIMS[_k]["text"] = CLAIMS[_k]["text"].rstrip() + " " + _v

ADDENDA13 = {
    "C01": "Round 14: the truth of a call's result is taken under a test on the node's position only; a recursion that threads bindings hands on bindings derived from the result at hand on every path.",
    "C02": "Round 14: shares EP-THREAD.",
    "C07": "Round 14: None in a membership list is translated with IS NULL / IS NOT NULL; the value of a literal is handed to the translator whole (a collection of one member stays a collection).",
    "C10": "Round 14: STREAM-LAZY also judges the functions that hand a parameter on to the lazy wrapper.",
    "C11": "Round 14: whether a nested match needs its type filter is decided from the pattern, not read from module-level state.",
    "C12": "Round 14: the truth of a call's result is taken under a test on the node's position only.",
    "C13": "Round 14: STREAM-LAZY also judges the functions that hand a parameter on to the lazy wrapper (the instances of a domain-less variable are not read when let() runs).",
    "C15": "Round 14: the inverse fact goes to the target's own field before the role taker's.",
    "C14": "Round 14: ID-MEMO covers class-level collections of the relation and descriptor classes.",
    "C18": "Round 14: the tag key is a reserved name.",
    "C19": "Round 14: the effect table has a row for find_spec; a library call on the tag without a row stops the analysis.",
    "C20": "Round 14: shares REL-LIVE; STREAM-LAZY also judges the functions that hand a parameter on to the lazy wrapper.",
}
for _k, _v in ADDENDA13.items():
    CLAIMS[_k]["text"] = CLAIMS[_k]["text"].rstrip() + " " + _v
