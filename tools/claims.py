"""What is claimed, per property. A property appears in CLAIMS only once its checker exists and
passes on the unchanged tree."""
FIX_COMMITS = []

CLAIMS = {
    "C09": dict(
        text="Decides the whole count-enforcement logic: the decision table of every constraint class and constructor "
             "is extracted from the AST over the finite domain of orderings x done and compared cell by cell with the "
             "stated table (exhaustive for all integers), and the CFG of the quantifier's evaluation loop is checked for "
             "count-once / assert-before-yield / final-assert. Residual assumption: one child result = one solution (C02).",
        ref="DESIGN.md §3 C09",
        note="trusts CPython's ast parser, the abstract evaluator of kverif/dtable.py and that dataclass __init__ calls __post_init__",
        technique="static analysis: finite decision-table extraction by abstract AST evaluation + CFG dominance",
    ),
}

_PENDING = "checker not built yet in this round (planned, see DESIGN.md)"
NOT_APPLICABLE = {
    "C05": "behaviour lives in SQLAlchemy's runtime mapper configuration and the database, driven by a generated module that is program output, not source; no structural clause is in reach of static analysis (generator-side conditions are decided under C06)",
}
for i in range(1, 21):
    p = f"C{i:02d}"
    if p not in CLAIMS and p not in NOT_APPLICABLE:
        NOT_APPLICABLE[p] = _PENDING
