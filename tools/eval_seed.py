#!/venv/bin/python
"""Evaluate one seeded change against /repo and the checks.

usage: tools/eval_seed.py <dir>      (dir holds patch.diff, demo.py, meta.json)
       EVAL_SEED_REPO=/tmp/wtX tools/eval_seed.py <dir>     (the same in a scratch worktree of /repo)

 1. the demo passes on the unchanged /repo
 2. the patch applies; with it the demo fails and the pinned test suite still passes
 3. every claimed check's quick command is run on the patched tree; which properties raise VIOLATION
 4. the patch is undone (git -C /repo checkout -- .)
Prints a JSON summary; never leaves /repo modified.
"""
import json
import os
import re
import subprocess
import sys

# EVAL_SEED_REPO=<scratch worktree of /repo> evaluates there instead (several seeds in parallel, /repo untouched): the checks then read
# <worktree>/src through KVERIF_SRC and write their evidence to a scratch directory
REPO = os.environ.get("EVAL_SEED_REPO", "/repo")
VERIF = os.path.dirname(os.path.dirname(os.path.abspath(__file__)))
PY = "/venv/bin/python"


def sh(cmd, cwd=None, timeout=1800, env=None):
    p = subprocess.run(cmd, shell=True, cwd=cwd, capture_output=True, text=True, timeout=timeout, env=env)
    return p.returncode, p.stdout + p.stderr


def main(d):
    d = os.path.abspath(d)
    patch = os.path.join(d, "patch.diff")
    demo = os.path.join(d, "demo.py")
    meta = json.load(open(os.path.join(d, "meta.json")))
    out = {"dir": d, "property": meta.get("property")}
    rc, o = sh("git status --porcelain", REPO)
    if o.strip() and o.strip() != "?? _seed/":
        print("refusing: /repo has local modifications:\n" + o)
        return 2
    env = dict(os.environ, PYTHONPATH=os.path.join(REPO, "src") + os.pathsep + REPO)
    # the demos were written to be run as <tree>/_seed/demo.py with the tree as working directory
    os.makedirs(os.path.join(REPO, "_seed"), exist_ok=True)
    import shutil
    shutil.copy(demo, os.path.join(REPO, "_seed", "demo.py"))
    demo = "_seed/demo.py"
    rc0, o0 = sh(f"{PY} {demo}", REPO, env=env)
    out["demo_unchanged_exit"] = rc0
    rc, o = sh(f"git apply --check {patch}", REPO)
    out["patch_applies"] = rc == 0
    if rc != 0:
        out["apply_error"] = o[-400:]
        print(json.dumps(out, indent=1))
        shutil.rmtree(os.path.join(REPO, "_seed"), ignore_errors=True)
        return 1
    try:
        sh(f"git apply {patch}", REPO)
        rc1, o1 = sh(f"{PY} {demo}", REPO, env=env)
        out["demo_patched_exit"] = rc1
        out["demo_patched_tail"] = o1.strip().splitlines()[-3:]
        rct, ot = sh(f"{PY} -m pytest -q -p no:cacheprovider --timeout=900 2>&1 | tail -4", REPO, env=env if REPO != "/repo" else None)
        m = re.search(r"(\d+) failed, (\d+) passed", ot) or re.search(r"(\d+) passed", ot)
        out["suite"] = ot.strip().splitlines()[-1] if ot.strip() else ""
        out["suite_ok"] = bool(re.search(r"\b132 passed", ot)) and not re.search(r"\b([3-9]|\d\d+) failed", ot)
        fired = {}
        man = json.load(open(os.path.join(VERIF, "MANIFEST.json")))
        cenv = None
        if REPO != "/repo":
            scratch = os.path.join("/tmp", "eval_seed_ev_" + os.path.basename(REPO))
            os.makedirs(scratch, exist_ok=True)
            cenv = dict(os.environ, KVERIF_SRC=os.path.join(REPO, "src"), KVERIF_EVIDENCE_DIR=scratch)
            out["evaluated_in"] = REPO
        for c in man["checks"]:
            pid = c["property_id"]
            rc, o = sh(c["quick_cmd"], VERIF, env=cenv)
            keys = re.findall(r"key=(\S+)", o)
            if rc == 1:
                fired[pid] = keys
            elif rc == 2:
                fired[pid] = ["ANALYSIS-ERROR: " + (re.findall(r"ANALYSIS-ERROR (.*)", o) or [""])[0][:160]]
        out["checks_fired"] = fired
        out["detected_by_own_property"] = meta.get("property") in fired and not all(k.startswith("ANALYSIS-ERROR") for k in fired[meta.get("property")])
    finally:
        sh("git checkout -- .", REPO)
        shutil.rmtree(os.path.join(REPO, "_seed"), ignore_errors=True)
    # restore evidence written by runs on the patched tree
    print(json.dumps(out, indent=1))
    return 0


if __name__ == "__main__":
    sys.exit(main(sys.argv[1]))
