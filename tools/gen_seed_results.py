#!/venv/bin/python
"""Regenerate seeded/RESULTS.md from the meta.json files of the stored seeds."""
import json
import os

ROOT = os.path.join(os.path.dirname(os.path.dirname(os.path.abspath(__file__))), "seeded")
HEAD = """# Independently seeded changes and which checks catch them

Each change was written by a fresh sub-agent that saw only the property text and a scratch worktree (nothing from /verif). I confirmed each one myself: the demo exits 0 on the unchanged /repo and non-zero with the patch, and the pinned suite still shows 132 passed (+ the 2 always-failing rendering tests) with the patch. Then every registered quick check was run on the patched /repo (`tools/eval_seed.py`). A miss was turned into a rule that states a necessary condition of the property (not a match of the seed's text); every rule is silent on the unchanged tree.

Round 1 (19 seeds), first run: 8 caught by the property's own check, 3 by another property's check, 8 missed; after strengthening all 19 are caught.
Round 2 (19 seeds, each asked to use a different function / clause than round 1), first run: 9 caught by the property's own check, 2 by another property's check only, 1 undecided (ANALYSIS-ERROR, exit 2), 7 missed; after strengthening all 19 are caught by the property's own check.
Round 3 (19 seeds, each given both earlier attempts and asked for a third function / clause), first run: 8 caught by the property's own check, 4 by another property's check only, 1 undecided (exit 2), 6 missed; after strengthening 18 are caught by the property's own check and 1 (C12-r3) no longer breaks the property on the repaired tree (see its meta.json).
Round 4 (19 seeds, each given the three earlier attempts and asked for a fourth function / clause), first run: 4 caught by the property's own check, 3 by another property's check only, 1 undecided (exit 2), 11 missed; after strengthening 18 are caught by the property's own check and 1 (C06-r4) no longer breaks the property on the repaired tree (its meta.json says why).

The rows show the state on the current /repo HEAD. /repo has received repairs since the seeds were written; a patch that no longer applied was re-based by me (the meta.json says so), and three seeds are behaviour-preserving on the repaired tree because the defect they leaned on was repaired at its root (C12-r3, C06-r4, C13-r2: demo exit 0 with the patch; for those the meta records the confirmation at the seeder's base commit).
"""
NOTES = """
Baseline observations reported by the seeders and triaged by me:
round 1 - a tag naming the serializer base raised NotImplementedError (C19, fixed 33ebaa4, rule extended); a bound variable with a falsy value was dropped as comparator operand (C01/C02, fixed 1e65682, new rule EP-OPERAND); next_rule over the same variables as the previous branch never fired (C08, fixed d23cb3d, RULE-SELECT key-includes-conclusions).
round 2 - an attribute-equality join between two variables of one mapped hierarchy raised InvalidRequestError / returned nothing (C07, fixed 35e79d8, SQL-VARID same-hierarchy-join); a relationship path on the non-selected variable of a join is answered on the selected row (C07, the known SQL-VARID finding, second input recorded); interleaved iterators of one rule query suppress each other's results (C03, new rule CARRY-SHARED, known finding); a fresh nested loop over a generator-backed variable truncates (C03, the known CARRY-2 finding); query objects pin the instances they ranged over (C20, the known STRONG-REF roots). While closing the C10 miss LAZY-BUILD reported that building x[key] formats the user key (C10, fixed 8d23fc0).
round 3 - contains(column, text) translated with LIKE (C07, fixed 36df0dd); a second equality between two joined variables dropped (C07, fixed 6dde094); an equality join inside or_ (C07, fixed fd9c08b); branches written after a first evaluation cut a refinement out of the tree (C08, fixed 1b70461); a bound value under not_ never flagged false (C01, fixed 8854632, a regression of my 1e65682); a falsy symbolic-function result as comparator operand (C12, fixed 4974803); exists() keyed by the quantified variable and silent on failure (C01, fixed 5139c33); for_all over an empty domain raising TypeError (C01, fixed e00fad1); for_all silent about rejected bindings (C01, fixed fbec162); or_ over a predicate call built as the union form (C02, fixed 23eb645); a shared attribute node reporting a stale truth flag (C01, fixed 274cad8); an alternative after a next_rule firing although the base fired (C08, known finding). Not acted on: IndexError for x.items[0] on an empty list (arguably correct), a bare variable as a condition, hasattr probes on user values during construction (listed as an assumption of C10), builtin-typed collections in match patterns (outside the documented grammar).
round 4 - repaired in /repo, each with a demo under findings/demos and a rule that reports the defect on the pre-repair tree: OR markers not reset after an abandoned evaluation (C03, 0023d85); the conditions root cached across queries (C03, 44adde2); class-diagram accessors blind to parallel edges (C17, 76b905b); set literals in membership (C07, e323902); an attribute chain through an index / call / flatten translated as a cross join (C07, 9a6c065); Conclusion._name_ formatting user data at build time (C10, 80ad2cb); falsy Symbols never recorded (C15/C16, 3762e87); x.f.extend(x.f) not terminating and slice assignment from an iterator (C16, 314e3a1); a field adopting the assigned monitored container (C16, ea04832); a predicate as the only condition of a nested query taken for an operand (C12, 0bb1cf1); for_all answering every further value with the first call result (C12, 4f512f3); all monitored containers comparing equal (C15, a2fb781); relations of an unswept dead instance taking part in inference (C14, e33bf11); nested match of an unrelated type (C11, 451dfe4); pattern literals against collections of builtin values (C11, f6c4920 - declined in round 3 as outside the grammar, the property's wording 'membership for collection attributes' covers it); match_any below a flattened element (C11, 2d8299b); registered int / tuple subclasses losing their tag (C18, 1f6cd1f); an empty collection aliasing the DAO's list (C04, 8050331); Union[None, X] and X | None (C17, 4e55637); a literal False condition (C01, ee3fa38); an instance dying during enumeration reported as None (C13, 04aff6d). Recorded as known findings: an expression node has one parent (C03 SHARED-TREE); a cycle entered through an alternatively mapped object (C04 DAO-ORDER); assignment to a collection field after an inference reached it (C15 PD-REPLACE - no retraction in the graph). Not acted on: or_ over the flatten of an empty collection (under the join reading of flatten the flattened element is a variable with an empty domain, so no assignment exists); duplicates from the union form of or_ (the property states membership); a logical expression passed as a call argument raises KeyError (loud); nested / local serializer classes are not resolvable from their tag (loud, ClassNotFoundError); ClassDiagram rendering raising TypeError with the installed rustworkx_utils (the two always-failing tests); equal-but-distinct domain members (`[1, 1, 2]`) de-duplicated on replay (the known CARRY-2 finding); `_conclusion_` left over after an abandoned evaluation (could not be turned into a wrong answer in 60 trials, see DESIGN.md limits).
"""


def row(d):
    m = json.load(open(os.path.join(ROOT, d, "meta.json")))
    c = m.get("confirmed", {})
    fired = c.get("checks_that_raised_VIOLATION", {})
    caught = "; ".join(f"{p}: {', '.join(sorted({k.split('@')[0] for k in ks}))}" for p, ks in sorted(fired.items()))
    summ = (m.get("summary") or m.get("what") or m.get("change") or "").replace("|", "/").replace("\n", " ")
    needs = (m.get("needs") or m.get("needs_to_manifest") or "").replace("|", "/").replace("\n", " ")
    if isinstance(needs, list):
        needs = "; ".join(needs)
    return f"| {d} | {summ[:220]} | {str(needs)[:220]} | {caught} | {c.get('first_run_before_strengthening', '')} |"


def main():
    dirs = sorted(d for d in os.listdir(ROOT) if os.path.isdir(os.path.join(ROOT, d)))
    out = [HEAD]
    for title, sel in (("Round 1", [d for d in dirs if "-r" not in d]), ("Round 2", [d for d in dirs if d.endswith("-r2")]), ("Round 3", [d for d in dirs if d.endswith("-r3")]), ("Round 4", [d for d in dirs if d.endswith("-r4")])):
        out.append(f"\n## {title}\n\n| seed | change (one line) | needs to manifest | caught by (rules) | first run |\n|---|---|---|---|---|")
        out += [row(d) for d in sel]
    out.append(NOTES)
    open(os.path.join(ROOT, "RESULTS.md"), "w").write("\n".join(out))


if __name__ == "__main__":
    main()
