"""Prints the table of DESIGN.md section 4 from the evidence files and known_findings.json (run after `python -m kverif all`)."""
import json
import os

HERE = os.path.dirname(os.path.dirname(os.path.abspath(__file__)))


def main():
    kf = json.load(open(os.path.join(HERE, "known_findings.json")))
    known = {}
    fixed = {}
    for e in kf.get("known", []):
        known[e["property"]] = known.get(e["property"], 0) + 1
    for e in kf.get("fixed", []):
        fixed[e["property"]] = fixed.get(e["property"], 0) + 1
    print("| id | rules | obligations today | result |")
    print("|----|----|----|----|")
    for i in range(1, 21):
        p = f"C{i:02d}"
        path = os.path.join(HERE, "evidence", p + ".json")
        if not os.path.exists(path):
            print(f"| {p} | — | — | not applicable |")
            continue
        ev = json.load(open(path))
        d = ev["coverage"]
        rules = [r["rule"] for r in d["rules"]]
        n = d["obligations"]
        res = []
        if known.get(p):
            res.append(f"{known[p]} known")
        else:
            res.append("✓")
        if fixed.get(p):
            res.append(f"({fixed[p]} fixed)")
        print(f"| {p} | {', '.join(rules)} | {n} | {' '.join(res)} |")


if __name__ == "__main__":
    main()
