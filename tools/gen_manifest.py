#!/venv/bin/python
"""Regenerate /verif/MANIFEST.json from the table below (kept in one place so that the claimed
set, the not_applicable list and the technique strings never drift apart)."""
import json, os, sys
HERE = os.path.dirname(os.path.dirname(os.path.abspath(__file__)))
sys.path.insert(0, HERE)
from tools.claims import CLAIMS, NOT_APPLICABLE, FIX_COMMITS

PY = "/venv/bin/python"
checks = []
for pid, c in sorted(CLAIMS.items()):
    checks.append({
        "property_id": pid,
        "quick_cmd": f"{PY} -m kverif check {pid}",
        "thorough_cmd": f"{PY} -m kverif check {pid} --tier thorough",
        "evidence_file": f"evidence/{pid}.json",
        "replay_cmd_template": f"{PY} -m kverif replay {{path}}",
        "engine": "kverif",
        "level_claimed": {"category": "other", "text": c["text"], "design_ref": c["ref"]},
        "level_note": c["note"],
        "technique": c["technique"],
    })
man = {
    "version": 1,
    "setup_cmd": f"{PY} -m kverif.setup",
    "hooks": {
        "guard": "KRROOD_VERIF",
        "enable": "no hook is needed: the checks parse /repo/src and never import or instrument krrood",
        "baseline_off_cmd": "cd /repo && /venv/bin/python -m pytest -ra -q -p no:cacheprovider --timeout=900 --continue-on-collection-errors",
        "source_commits": FIX_COMMITS,
        "add_only": True,
    },
    "engines": [{
        "name": "kverif",
        "path": "kverif/",
        "serves_properties": sorted(CLAIMS),
        "kind_free_text": "repository-specific static analyser on stdlib ast: program model with C3 MRO, CHA call resolution, statement CFG with dominators, provenance dataflow, effect analysis, finite decision-table extraction",
    }],
    "checks": checks,
    "notes": "Static analysis only: every check parses /repo/src/krrood as it is on disk at the moment of the run. exit 0 = all obligations discharged (known findings are printed as KNOWN-FINDING lines), exit 1 = VIOLATION, exit 2 = ANALYSIS-ERROR (anchor vanished / unsupported construct; never a silent pass).",
    "not_applicable": [{"property_id": p, "reason": r} for p, r in sorted(NOT_APPLICABLE.items())],
}
with open(os.path.join(HERE, "MANIFEST.json"), "w") as fh:
    json.dump(man, fh, indent=1)
    fh.write("\n")
print("wrote MANIFEST.json with", len(checks), "checks,", len(NOT_APPLICABLE), "not applicable")
